//! Byte-level and structure-aware mutators.
use crate::gen::Rg;
use crate::refmodel::ser::{Kind, Mark};
use rand::Rng;

/// re-encode a compact-size value in a wider (non-minimal) form; `width` in {3,5,9}
pub fn cs_wide(n: u64, width: usize) -> Vec<u8> {
    match width {
        3 => {
            let mut v = vec![0xfd];
            v.extend_from_slice(&(n as u16).to_le_bytes());
            v
        }
        5 => {
            let mut v = vec![0xfe];
            v.extend_from_slice(&(n as u32).to_le_bytes());
            v
        }
        _ => {
            let mut v = vec![0xff];
            v.extend_from_slice(&n.to_le_bytes());
            v
        }
    }
}

pub fn read_cs(b: &[u8]) -> Option<(u64, usize)> {
    match *b.first()? {
        0xfd => Some((u16::from_le_bytes([*b.get(1)?, *b.get(2)?]) as u64, 3)),
        0xfe => Some((u32::from_le_bytes([*b.get(1)?, *b.get(2)?, *b.get(3)?, *b.get(4)?]) as u64, 5)),
        0xff => {
            let mut a = [0u8; 8];
            a.copy_from_slice(b.get(1..9)?);
            Some((u64::from_le_bytes(a), 9))
        }
        x => Some((x as u64, 1)),
    }
}

/// Generic mutation of a byte string; returns a label for coverage accounting.
pub fn generic(r: &mut Rg, b: &mut Vec<u8>) -> &'static str {
    match r.gen_range(0..9) {
        0 if !b.is_empty() => {
            let i = r.gen_range(0..b.len());
            b[i] ^= 1 << r.gen_range(0..8);
            "bitflip"
        }
        1 if !b.is_empty() => {
            let i = r.gen_range(0..b.len());
            b[i] = r.gen();
            "byteset"
        }
        2 if !b.is_empty() => {
            let n = r.gen_range(0..b.len());
            b.truncate(n);
            "truncate"
        }
        3 => {
            let n = r.gen_range(1..10);
            for _ in 0..n {
                b.push(r.gen());
            }
            "extend"
        }
        4 if b.len() > 2 => {
            let i = r.gen_range(0..b.len() - 1);
            let n = r.gen_range(1..(b.len() - i).min(40) + 1);
            b.drain(i..i + n);
            "delete"
        }
        5 if !b.is_empty() => {
            let i = r.gen_range(0..b.len());
            let n = r.gen_range(1..(b.len() - i).min(40) + 1);
            let chunk: Vec<u8> = b[i..i + n].to_vec();
            let j = r.gen_range(0..=b.len());
            for (k, x) in chunk.into_iter().enumerate() {
                b.insert(j + k, x);
            }
            "duplicate"
        }
        6 if !b.is_empty() => {
            let i = r.gen_range(0..b.len());
            b[i] = *crate::gen::pick(r, &[0u8, 1, 0x7f, 0x80, 0xfc, 0xfd, 0xfe, 0xff]);
            "interesting-byte"
        }
        7 if b.len() >= 4 => {
            let i = r.gen_range(0..b.len() - 3);
            let v: u32 = *crate::gen::pick(r, &[0u32, 1, 0x3fff_ffff, 0x4000_0000, 0x8000_0000, 0xffff_ffff, 0xffff_fffe]);
            b[i..i + 4].copy_from_slice(&v.to_le_bytes());
            "interesting-u32"
        }
        _ => {
            let i = if b.is_empty() { 0 } else { r.gen_range(0..=b.len()) };
            b.insert(i, r.gen());
            "insert"
        }
    }
}

/// Structure-aware mutation driven by the reference serializer's field map.
/// Returns None if the chosen mutation is not applicable.
pub fn structured(r: &mut Rg, bytes: &[u8], marks: &[Mark]) -> Option<(Vec<u8>, &'static str)> {
    if marks.is_empty() {
        return None;
    }
    let m = &marks[r.gen_range(0..marks.len())];
    let mut out = bytes.to_vec();
    match m.kind {
        Kind::Cs => {
            let (n, w) = read_cs(&bytes[m.off..])?;
            match r.gen_range(0..5) {
                4 => {
                    // nine-byte form whose low 32 (or 16) bits are the true count and whose high bits are not zero
                    let hi: u64 = *crate::gen::pick(r, &[1u64 << 32, 1 << 33, 0xffff_ffff_0000_0000, 1 << 16, 1 << 63]);
                    let mut enc = vec![0xffu8];
                    enc.extend_from_slice(&(n.wrapping_add(hi)).to_le_bytes());
                    out.splice(m.off..m.off + w, enc);
                    Some((out, "cs-high-bits"))
                }
                0 | 1 => {
                    // non-minimal re-encoding in each wider width
                    let widths: Vec<usize> = [3usize, 5, 9].iter().cloned().filter(|x| *x > w).collect();
                    let nw = *crate::gen::pick(r, &widths);
                    out.splice(m.off..m.off + w, cs_wide(n, nw));
                    Some((out, "cs-nonminimal"))
                }
                2 => {
                    let nn = match r.gen_range(0..4) {
                        0 => n.wrapping_add(1),
                        1 => n.wrapping_sub(1),
                        2 => 0,
                        _ => *crate::gen::pick(r, &[0xfcu64, 0xfd, 0xffff, 0x10000, 4_000_000, 4_000_001, 0xffff_ffff, u64::MAX]),
                    };
                    out.splice(m.off..m.off + w, crate::refmodel::merkle::cs(nn));
                    Some((out, "cs-value"))
                }
                _ => {
                    out[m.off] = *crate::gen::pick(r, &[0xfdu8, 0xfe, 0xff]);
                    Some((out, "cs-tag"))
                }
            }
        }
        Kind::WitFlag => {
            out[m.off] = match r.gen_range(0..3) {
                0 => 1 - (out[m.off] & 1),
                1 => 2,
                _ => r.gen(),
            };
            Some((out, "witflag"))
        }
        Kind::Vout => {
            let cur = u32::from_le_bytes([bytes[m.off], bytes[m.off + 1], bytes[m.off + 2], bytes[m.off + 3]]);
            let nv = match r.gen_range(0..6) {
                0 => cur ^ (1 << 31),
                1 => cur ^ (1 << 30),
                2 => 0xffff_ffff,
                3 => 0x3fff_ffff,
                4 => 0xbfff_ffff,
                _ => cur | 0xc000_0000,
            };
            out[m.off..m.off + 4].copy_from_slice(&nv.to_le_bytes());
            Some((out, "vout-flags"))
        }
        Kind::PrefixAsset | Kind::PrefixValue | Kind::PrefixNonce => {
            out[m.off] = if r.gen_range(0..2) == 0 { r.gen_range(0..16) } else { r.gen() };
            Some((out, "conf-prefix"))
        }
        Kind::PointX => {
            if r.gen_range(0..2) == 0 {
                for x in out[m.off..m.off + m.width].iter_mut() {
                    *x = r.gen();
                }
            } else {
                out[m.off + r.gen_range(0..m.width)] ^= 1 << r.gen_range(0..8);
            }
            Some((out, "point-x"))
        }
        Kind::HdrVersion => {
            out[m.off + 3] ^= 0x80;
            Some((out, "hdr-dynafed-bit"))
        }
        Kind::ParamsTag => {
            out[m.off] = if r.gen_range(0..2) == 0 { r.gen_range(0..4) } else { r.gen() };
            Some((out, "params-tag"))
        }
        Kind::Scalar => {
            for x in out[m.off..m.off + m.width].iter_mut() {
                *x = 0xff;
            }
            Some((out, "scalar-overflow"))
        }
        Kind::Fixed | Kind::Payload => {
            if m.width == 0 {
                return None;
            }
            out[m.off + r.gen_range(0..m.width)] ^= 1 << r.gen_range(0..8);
            Some((out, "field-bitflip"))
        }
    }
}
