//! I/O fault injection at the Read / Write boundary of the consensus codec.
use std::io::{self, Read, Write};

/// Delivers the data in small random-sized chunks and injects spurious
/// `ErrorKind::Interrupted` errors (which `read_exact` must retry).
pub struct ChunkedReader<'a> {
    pub data: &'a [u8],
    pub pos: usize,
    pub state: u64,
    pub max_chunk: usize,
    pub interrupts: u64,
    pub reads: u64,
}

impl<'a> ChunkedReader<'a> {
    pub fn new(data: &'a [u8], seed: u64, max_chunk: usize) -> Self {
        ChunkedReader { data, pos: 0, state: seed | 1, max_chunk: max_chunk.max(1), interrupts: 0, reads: 0 }
    }
    fn next(&mut self) -> u64 {
        // xorshift64*
        self.state ^= self.state >> 12;
        self.state ^= self.state << 25;
        self.state ^= self.state >> 27;
        self.state.wrapping_mul(0x2545F4914F6CDD1D)
    }
}

impl Read for ChunkedReader<'_> {
    fn read(&mut self, buf: &mut [u8]) -> io::Result<usize> {
        self.reads += 1;
        if self.next() % 5 == 0 {
            self.interrupts += 1;
            return Err(io::Error::new(io::ErrorKind::Interrupted, "injected EINTR"));
        }
        if buf.is_empty() {
            return Ok(0);
        }
        let want = 1 + (self.next() as usize % self.max_chunk);
        let n = want.min(buf.len()).min(self.data.len() - self.pos);
        buf[..n].copy_from_slice(&self.data[self.pos..self.pos + n]);
        self.pos += n;
        Ok(n)
    }
}

/// Accepts at most `limit` bytes in total, then fails every write.
pub struct FailingWriter {
    pub written: Vec<u8>,
    pub limit: usize,
}

impl Write for FailingWriter {
    fn write(&mut self, buf: &[u8]) -> io::Result<usize> {
        if self.written.len() >= self.limit {
            return Err(io::Error::new(io::ErrorKind::Other, "injected write failure"));
        }
        let n = buf.len().min(self.limit - self.written.len());
        self.written.extend_from_slice(&buf[..n]);
        Ok(n)
    }
    fn flush(&mut self) -> io::Result<()> {
        Ok(())
    }
}

/// Accepts at most `k` bytes per write call (short writes), never fails.
pub struct ShortWriter {
    pub written: Vec<u8>,
    pub k: usize,
    pub calls: u64,
}

impl Write for ShortWriter {
    fn write(&mut self, buf: &[u8]) -> io::Result<usize> {
        self.calls += 1;
        let n = buf.len().min(self.k.max(1));
        self.written.extend_from_slice(&buf[..n]);
        Ok(n)
    }
    fn flush(&mut self) -> io::Result<()> {
        Ok(())
    }
}

/// Counts bytes actually written (independent of the encoder's returned length).
#[derive(Default)]
pub struct CountingWriter {
    pub n: usize,
    pub buf: Vec<u8>,
}

impl Write for CountingWriter {
    fn write(&mut self, buf: &[u8]) -> io::Result<usize> {
        self.n += buf.len();
        self.buf.extend_from_slice(buf);
        Ok(buf.len())
    }
    fn flush(&mut self) -> io::Result<()> {
        Ok(())
    }
}
