//! Definitional Elements fast merkle root and the formulas built on it
//! (issuance entropy / asset id / token id, dynafed parameter roots).
use super::sha;

pub fn node(l: &[u8; 32], r: &[u8; 32]) -> [u8; 32] {
    let mut b = [0u8; 64];
    b[..32].copy_from_slice(l);
    b[32..].copy_from_slice(r);
    sha::midstate64(&b)
}

/// Level-by-level definition: pair (0,1),(2,3),…; an unpaired last node moves up unchanged.
pub fn root(leaves: &[[u8; 32]]) -> [u8; 32] {
    if leaves.is_empty() {
        return [0u8; 32];
    }
    let mut level: Vec<[u8; 32]> = leaves.to_vec();
    while level.len() > 1 {
        let mut next = Vec::with_capacity((level.len() + 1) / 2);
        let mut i = 0;
        while i + 1 < level.len() {
            next.push(node(&level[i], &level[i + 1]));
            i += 2;
        }
        if i < level.len() {
            next.push(level[i]);
        }
        level = next;
    }
    level[0]
}

/// A second, structurally different definition (recursive split at the largest power
/// of two strictly below n) used to cross-check `root` in the self-test.
pub fn root_recursive(leaves: &[[u8; 32]]) -> [u8; 32] {
    match leaves.len() {
        0 => [0u8; 32],
        1 => leaves[0],
        n => {
            let mut k = 1usize;
            while k * 2 < n {
                k *= 2;
            }
            node(&root_recursive(&leaves[..k]), &root_recursive(&leaves[k..]))
        }
    }
}

pub fn cs(n: u64) -> Vec<u8> {
    if n < 0xfd {
        vec![n as u8]
    } else if n <= 0xffff {
        let mut v = vec![0xfd];
        v.extend_from_slice(&(n as u16).to_le_bytes());
        v
    } else if n <= 0xffff_ffff {
        let mut v = vec![0xfe];
        v.extend_from_slice(&(n as u32).to_le_bytes());
        v
    } else {
        let mut v = vec![0xff];
        v.extend_from_slice(&n.to_le_bytes());
        v
    }
}

pub fn vb(b: &[u8]) -> Vec<u8> {
    let mut v = cs(b.len() as u64);
    v.extend_from_slice(b);
    v
}

/// entropy = root([sha256d(txid || LE32(plain index)), contract])
pub fn entropy(txid: &[u8; 32], vout_plain: u32, contract: &[u8; 32]) -> [u8; 32] {
    let mut pre = txid.to_vec();
    pre.extend_from_slice(&vout_plain.to_le_bytes());
    root(&[sha::sha256d(&pre), *contract])
}

pub fn asset_id(entropy: &[u8; 32]) -> [u8; 32] {
    root(&[*entropy, [0u8; 32]])
}

pub fn token_id(entropy: &[u8; 32], confidential: bool) -> [u8; 32] {
    let mut k = [0u8; 32];
    k[0] = if confidential { 2 } else { 1 };
    root(&[*entropy, k])
}

pub fn dynafed_extra_root(fedpeg_program: &[u8], fedpegscript: &[u8], ext: &[Vec<u8>]) -> [u8; 32] {
    let mut e = cs(ext.len() as u64);
    for x in ext {
        e.extend_from_slice(&vb(x));
    }
    root(&[sha::sha256d(&vb(fedpeg_program)), sha::sha256d(&vb(fedpegscript)), sha::sha256d(&e)])
}

pub fn dynafed_root(signblockscript: &[u8], limit: u32, extra: &[u8; 32]) -> [u8; 32] {
    let compact = root(&[sha::sha256d(&vb(signblockscript)), sha::sha256d(&limit.to_le_bytes())]);
    root(&[compact, *extra])
}
