pub mod addr;
pub mod merkle;
pub mod psetraw;
pub mod script;
pub mod ser;
pub mod sha;
pub mod sighash;
pub mod tap;
