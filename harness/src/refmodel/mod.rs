pub mod addr;
pub mod merkle;
pub mod script;
pub mod ser;
pub mod sha;
pub mod sighash;
