pub mod addr;
pub mod merkle;
pub mod ser;
pub mod sha;
pub mod sighash;
