//! Reference consensus serializer (`refser`) and decoder (`refdec`) for Elements
//! transactions, headers, dynafed parameters and blocks, written from the format
//! description (DESIGN.md appendix B.1). Own plain-data types; conversion from the
//! library's values reads public fields only. Curve-point / proof / scalar validity is
//! delegated to secp256k1-zkp's `from_slice` functions (dependency code).

use elements::secp256k1_zkp as zkp;

#[derive(Clone, Debug, PartialEq, Eq, Hash)]
pub enum RValue {
    Null,
    Explicit(u64),
    Conf([u8; 33]),
}
#[derive(Clone, Debug, PartialEq, Eq, Hash)]
pub enum RAsset {
    Null,
    Explicit([u8; 32]),
    Conf([u8; 33]),
}
#[derive(Clone, Debug, PartialEq, Eq, Hash)]
pub enum RNonce {
    Null,
    Explicit([u8; 32]),
    Conf([u8; 33]),
}
#[derive(Clone, Debug, PartialEq, Eq, Hash)]
pub struct RIssuance {
    pub nonce: [u8; 32],
    pub entropy: [u8; 32],
    pub amount: RValue,
    pub keys: RValue,
}
impl RIssuance {
    pub fn is_null(&self) -> bool {
        self.amount == RValue::Null && self.keys == RValue::Null
    }
}
#[derive(Clone, Debug, PartialEq, Eq, Hash, Default)]
pub struct RInWit {
    pub amount_proof: Vec<u8>,
    pub keys_proof: Vec<u8>,
    pub script_witness: Vec<Vec<u8>>,
    pub pegin_witness: Vec<Vec<u8>>,
}
impl RInWit {
    pub fn is_empty(&self) -> bool {
        self.amount_proof.is_empty()
            && self.keys_proof.is_empty()
            && self.script_witness.is_empty()
            && self.pegin_witness.is_empty()
    }
}
#[derive(Clone, Debug, PartialEq, Eq, Hash, Default)]
pub struct ROutWit {
    pub surj: Vec<u8>,
    pub range: Vec<u8>,
}
impl ROutWit {
    pub fn is_empty(&self) -> bool {
        self.surj.is_empty() && self.range.is_empty()
    }
}
#[derive(Clone, Debug, PartialEq, Eq, Hash)]
pub struct RTxIn {
    pub txid: [u8; 32],
    /// index as held in memory (flags stripped unless the index is 0xffffffff)
    pub vout: u32,
    pub pegin: bool,
    pub script_sig: Vec<u8>,
    pub sequence: u32,
    /// None = null issuance
    pub issuance: Option<RIssuance>,
    pub witness: RInWit,
}
#[derive(Clone, Debug, PartialEq, Eq, Hash)]
pub struct RTxOut {
    pub asset: RAsset,
    pub value: RValue,
    pub nonce: RNonce,
    pub spk: Vec<u8>,
    pub witness: ROutWit,
}
#[derive(Clone, Debug, PartialEq, Eq, Hash)]
pub struct RTx {
    pub version: u32,
    pub lock_time: u32,
    pub ins: Vec<RTxIn>,
    pub outs: Vec<RTxOut>,
}
#[derive(Clone, Debug, PartialEq, Eq, Hash)]
pub enum RParams {
    Null,
    Compact { script: Vec<u8>, limit: u32, elided: [u8; 32] },
    Full { script: Vec<u8>, limit: u32, fedpeg_program: Vec<u8>, fedpegscript: Vec<u8>, ext: Vec<Vec<u8>> },
}
#[derive(Clone, Debug, PartialEq, Eq, Hash)]
pub enum RExt {
    Proof { challenge: Vec<u8>, solution: Vec<u8> },
    Dynafed { current: RParams, proposed: RParams, witness: Vec<Vec<u8>> },
}
#[derive(Clone, Debug, PartialEq, Eq, Hash)]
pub struct RHeader {
    /// version without the dynafed marker bit
    pub version: u32,
    pub prev: [u8; 32],
    pub merkle: [u8; 32],
    pub time: u32,
    pub height: u32,
    pub ext: RExt,
}
#[derive(Clone, Debug, PartialEq, Eq, Hash)]
pub struct RBlock {
    pub header: RHeader,
    pub txs: Vec<RTx>,
}

// ---------------------------------------------------------------------------------
// writer with a field map

#[derive(Clone, Debug, PartialEq, Eq)]
pub enum Kind {
    /// compact-size integer
    Cs,
    /// transaction witness flag byte
    WitFlag,
    /// outpoint index (4 bytes, flags folded in)
    Vout,
    /// prefix byte of a confidential asset / value / nonce
    PrefixAsset,
    PrefixValue,
    PrefixNonce,
    /// 32-byte x coordinate following a confidential prefix
    PointX,
    /// header version (4 bytes)
    HdrVersion,
    /// dynafed params tag byte
    ParamsTag,
    /// issuance blinding nonce (32-byte scalar)
    Scalar,
    /// any other fixed field
    Fixed,
    /// byte payload of a length-prefixed vector
    Payload,
}

#[derive(Clone, Debug)]
pub struct Mark {
    pub off: usize,
    pub width: usize,
    pub kind: Kind,
}

#[derive(Default)]
pub struct W {
    pub buf: Vec<u8>,
    pub marks: Vec<Mark>,
}

impl W {
    pub fn new() -> W {
        W::default()
    }
    fn mark(&mut self, width: usize, kind: Kind) {
        self.marks.push(Mark { off: self.buf.len(), width, kind });
    }
    pub fn raw(&mut self, b: &[u8], kind: Kind) {
        self.mark(b.len(), kind);
        self.buf.extend_from_slice(b);
    }
    pub fn le32(&mut self, v: u32, kind: Kind) {
        self.raw(&v.to_le_bytes(), kind)
    }
    pub fn cs(&mut self, n: u64) {
        let e = super::merkle::cs(n);
        self.raw(&e, Kind::Cs);
    }
    pub fn vb(&mut self, b: &[u8]) {
        self.cs(b.len() as u64);
        self.raw(b, Kind::Payload);
    }
    pub fn vvb(&mut self, v: &[Vec<u8>]) {
        self.cs(v.len() as u64);
        for x in v {
            self.vb(x);
        }
    }
}

impl RValue {
    pub fn ser(&self, w: &mut W) {
        match self {
            RValue::Null => w.raw(&[0], Kind::PrefixValue),
            RValue::Explicit(v) => {
                w.raw(&[1], Kind::PrefixValue);
                w.raw(&v.to_be_bytes(), Kind::Fixed);
            }
            RValue::Conf(c) => {
                w.raw(&c[..1], Kind::PrefixValue);
                w.raw(&c[1..], Kind::PointX);
            }
        }
    }
    pub fn len(&self) -> usize {
        match self {
            RValue::Null => 1,
            RValue::Explicit(_) => 9,
            RValue::Conf(_) => 33,
        }
    }
}
impl RAsset {
    pub fn ser(&self, w: &mut W) {
        match self {
            RAsset::Null => w.raw(&[0], Kind::PrefixAsset),
            RAsset::Explicit(v) => {
                w.raw(&[1], Kind::PrefixAsset);
                w.raw(v, Kind::Fixed);
            }
            RAsset::Conf(c) => {
                w.raw(&c[..1], Kind::PrefixAsset);
                w.raw(&c[1..], Kind::PointX);
            }
        }
    }
}
impl RNonce {
    pub fn ser(&self, w: &mut W) {
        match self {
            RNonce::Null => w.raw(&[0], Kind::PrefixNonce),
            RNonce::Explicit(v) => {
                w.raw(&[1], Kind::PrefixNonce);
                w.raw(v, Kind::Fixed);
            }
            RNonce::Conf(c) => {
                w.raw(&c[..1], Kind::PrefixNonce);
                w.raw(&c[1..], Kind::PointX);
            }
        }
    }
}
impl RIssuance {
    pub fn ser(&self, w: &mut W) {
        w.raw(&self.nonce, Kind::Scalar);
        w.raw(&self.entropy, Kind::Fixed);
        self.amount.ser(w);
        self.keys.ser(w);
    }
}
impl RTxIn {
    /// outpoint index as serialized in a transaction (flags folded in)
    pub fn wire_vout(&self) -> u32 {
        let mut v = self.vout;
        if self.pegin {
            v |= 1 << 30;
        }
        if self.issuance.is_some() {
            v |= 1 << 31;
        }
        v
    }
    pub fn ser(&self, w: &mut W) {
        w.raw(&self.txid, Kind::Fixed);
        w.le32(self.wire_vout(), Kind::Vout);
        w.vb(&self.script_sig);
        w.le32(self.sequence, Kind::Fixed);
        if let Some(i) = &self.issuance {
            i.ser(w);
        }
    }
    pub fn flag_byte(&self) -> u8 {
        (if self.issuance.is_some() { 0x80 } else { 0 }) | (if self.pegin { 0x40 } else { 0 })
    }
}
impl RInWit {
    pub fn ser(&self, w: &mut W) {
        w.vb(&self.amount_proof);
        w.vb(&self.keys_proof);
        w.vvb(&self.script_witness);
        w.vvb(&self.pegin_witness);
    }
}
impl ROutWit {
    pub fn ser(&self, w: &mut W) {
        w.vb(&self.surj);
        w.vb(&self.range);
    }
}
impl RTxOut {
    pub fn ser(&self, w: &mut W) {
        self.asset.ser(w);
        self.value.ser(w);
        self.nonce.ser(w);
        w.vb(&self.spk);
    }
}
impl RTx {
    pub fn has_witness(&self) -> bool {
        self.ins.iter().any(|i| !i.witness.is_empty()) || self.outs.iter().any(|o| !o.witness.is_empty())
    }
    pub fn ser_to(&self, w: &mut W, with_witness: bool) {
        let wit = with_witness && self.has_witness();
        w.le32(self.version, Kind::Fixed);
        w.raw(&[wit as u8], Kind::WitFlag);
        w.cs(self.ins.len() as u64);
        for i in &self.ins {
            i.ser(w);
        }
        w.cs(self.outs.len() as u64);
        for o in &self.outs {
            o.ser(w);
        }
        w.le32(self.lock_time, Kind::Fixed);
        if wit {
            for i in &self.ins {
                i.witness.ser(w);
            }
            for o in &self.outs {
                o.witness.ser(w);
            }
        }
    }
    pub fn full(&self) -> Vec<u8> {
        let mut w = W::new();
        self.ser_to(&mut w, true);
        w.buf
    }
    pub fn stripped(&self) -> Vec<u8> {
        let mut w = W::new();
        self.ser_to(&mut w, false);
        w.buf
    }
    pub fn full_marked(&self) -> W {
        let mut w = W::new();
        self.ser_to(&mut w, true);
        w
    }
}
impl RParams {
    pub fn ser(&self, w: &mut W) {
        match self {
            RParams::Null => w.raw(&[0], Kind::ParamsTag),
            RParams::Compact { script, limit, elided } => {
                w.raw(&[1], Kind::ParamsTag);
                w.vb(script);
                w.le32(*limit, Kind::Fixed);
                w.raw(elided, Kind::Fixed);
            }
            RParams::Full { script, limit, fedpeg_program, fedpegscript, ext } => {
                w.raw(&[2], Kind::ParamsTag);
                w.vb(script);
                w.le32(*limit, Kind::Fixed);
                w.vb(fedpeg_program);
                w.vb(fedpegscript);
                w.vvb(ext);
            }
        }
    }
    pub fn bytes(&self) -> Vec<u8> {
        let mut w = W::new();
        self.ser(&mut w);
        w.buf
    }
}
impl RHeader {
    pub fn is_dynafed(&self) -> bool {
        matches!(self.ext, RExt::Dynafed { .. })
    }
    /// `hashed_only`: omit solution / signblock witness (block-hash preimage)
    pub fn ser_to(&self, w: &mut W, hashed_only: bool) {
        let v = if self.is_dynafed() { self.version | 0x8000_0000 } else { self.version };
        w.le32(v, Kind::HdrVersion);
        w.raw(&self.prev, Kind::Fixed);
        w.raw(&self.merkle, Kind::Fixed);
        w.le32(self.time, Kind::Fixed);
        w.le32(self.height, Kind::Fixed);
        match &self.ext {
            RExt::Proof { challenge, solution } => {
                w.vb(challenge);
                if !hashed_only {
                    w.vb(solution);
                }
            }
            RExt::Dynafed { current, proposed, witness } => {
                current.ser(w);
                proposed.ser(w);
                if !hashed_only {
                    w.vvb(witness);
                }
            }
        }
    }
    pub fn full(&self) -> Vec<u8> {
        let mut w = W::new();
        self.ser_to(&mut w, false);
        w.buf
    }
    pub fn hashed(&self) -> Vec<u8> {
        let mut w = W::new();
        self.ser_to(&mut w, true);
        w.buf
    }
}
impl RBlock {
    pub fn ser_to(&self, w: &mut W) {
        self.header.ser_to(w, false);
        w.cs(self.txs.len() as u64);
        for t in &self.txs {
            t.ser_to(w, true);
        }
    }
    pub fn full(&self) -> Vec<u8> {
        let mut w = W::new();
        self.ser_to(&mut w);
        w.buf
    }
}

pub fn bytes_of(f: impl FnOnce(&mut W)) -> Vec<u8> {
    let mut w = W::new();
    f(&mut w);
    w.buf
}

// ---------------------------------------------------------------------------------
// conversions from the library's values (public fields / dependency serializers only)

use elements::confidential as conf;

pub fn rvalue(v: &conf::Value) -> RValue {
    match v {
        conf::Value::Null => RValue::Null,
        conf::Value::Explicit(n) => RValue::Explicit(*n),
        conf::Value::Confidential(c) => RValue::Conf(c.serialize()),
    }
}
pub fn rasset(v: &conf::Asset) -> RAsset {
    match v {
        conf::Asset::Null => RAsset::Null,
        conf::Asset::Explicit(id) => RAsset::Explicit(asset_id_bytes(id)),
        conf::Asset::Confidential(g) => RAsset::Conf(g.serialize()),
    }
}
pub fn asset_id_bytes(id: &elements::AssetId) -> [u8; 32] {
    id.to_byte_array()
}
pub fn rnonce(v: &conf::Nonce) -> RNonce {
    match v {
        conf::Nonce::Null => RNonce::Null,
        conf::Nonce::Explicit(b) => RNonce::Explicit(*b),
        conf::Nonce::Confidential(pk) => RNonce::Conf(pk.serialize()),
    }
}
pub fn rissuance(i: &elements::AssetIssuance) -> Option<RIssuance> {
    let r = RIssuance {
        nonce: *i.asset_blinding_nonce.as_ref(),
        entropy: i.asset_entropy,
        amount: rvalue(&i.amount),
        keys: rvalue(&i.inflation_keys),
    };
    if r.is_null() {
        None
    } else {
        Some(r)
    }
}
pub fn rissuance_raw(i: &elements::AssetIssuance) -> RIssuance {
    RIssuance {
        nonce: *i.asset_blinding_nonce.as_ref(),
        entropy: i.asset_entropy,
        amount: rvalue(&i.amount),
        keys: rvalue(&i.inflation_keys),
    }
}
fn proof_bytes_r(p: &Option<Box<zkp::RangeProof>>) -> Vec<u8> {
    p.as_ref().map(|x| x.serialize()).unwrap_or_default()
}
fn proof_bytes_s(p: &Option<Box<zkp::SurjectionProof>>) -> Vec<u8> {
    p.as_ref().map(|x| x.serialize()).unwrap_or_default()
}
pub fn rinwit(w: &elements::TxInWitness) -> RInWit {
    RInWit {
        amount_proof: proof_bytes_r(&w.amount_rangeproof),
        keys_proof: proof_bytes_r(&w.inflation_keys_rangeproof),
        script_witness: w.script_witness.clone(),
        pegin_witness: w.pegin_witness.clone(),
    }
}
pub fn routwit(w: &elements::TxOutWitness) -> ROutWit {
    ROutWit { surj: proof_bytes_s(&w.surjection_proof), range: proof_bytes_r(&w.rangeproof) }
}
pub fn txid_bytes(t: &elements::Txid) -> [u8; 32] {
    t.to_byte_array()
}
pub fn rtxin(i: &elements::TxIn) -> RTxIn {
    RTxIn {
        txid: txid_bytes(&i.previous_output.txid),
        vout: i.previous_output.vout,
        pegin: i.is_pegin,
        script_sig: i.script_sig.as_bytes().to_vec(),
        sequence: i.sequence.0,
        issuance: rissuance(&i.asset_issuance),
        witness: rinwit(&i.witness),
    }
}
pub fn rtxout(o: &elements::TxOut) -> RTxOut {
    RTxOut {
        asset: rasset(&o.asset),
        value: rvalue(&o.value),
        nonce: rnonce(&o.nonce),
        spk: o.script_pubkey.as_bytes().to_vec(),
        witness: routwit(&o.witness),
    }
}
pub fn rtx(t: &elements::Transaction) -> RTx {
    RTx {
        version: t.version,
        lock_time: t.lock_time.to_consensus_u32(),
        ins: t.input.iter().map(rtxin).collect(),
        outs: t.output.iter().map(rtxout).collect(),
    }
}
pub fn rparams(p: &elements::dynafed::Params) -> RParams {
    use elements::dynafed::Params;
    match p {
        Params::Null => RParams::Null,
        Params::Compact { signblockscript, signblock_witness_limit, elided_root } => RParams::Compact {
            script: signblockscript.as_bytes().to_vec(),
            limit: *signblock_witness_limit,
            elided: elided_root.to_byte_array(),
        },
        Params::Full(f) => RParams::Full {
            script: f.signblockscript.as_bytes().to_vec(),
            limit: f.signblock_witness_limit,
            fedpeg_program: f.fedpeg_program.as_bytes().to_vec(),
            fedpegscript: f.fedpegscript.clone(),
            ext: f.extension_space.clone(),
        },
    }
}
pub fn rheader(h: &elements::BlockHeader) -> RHeader {
    RHeader {
        version: h.version,
        prev: h.prev_blockhash.to_byte_array(),
        merkle: h.merkle_root.to_byte_array(),
        time: h.time,
        height: h.height,
        ext: match &h.ext {
            elements::BlockExtData::Proof { challenge, solution } => {
                RExt::Proof { challenge: challenge.as_bytes().to_vec(), solution: solution.as_bytes().to_vec() }
            }
            elements::BlockExtData::Dynafed { current, proposed, signblock_witness } => RExt::Dynafed {
                current: rparams(current),
                proposed: rparams(proposed),
                witness: signblock_witness.clone(),
            },
        },
    }
}
pub fn rblock(b: &elements::Block) -> RBlock {
    RBlock { header: rheader(&b.header), txs: b.txdata.iter().map(rtx).collect() }
}

// ---------------------------------------------------------------------------------
// reference decoder

#[derive(Debug, Clone, PartialEq, Eq)]
pub enum DecErr {
    Eof,
    NonMinimalVarint,
    BadPrefix(&'static str, u8),
    BadPoint(&'static str),
    BadScalar,
    BadProof(&'static str),
    BadWitFlag(u8),
    EmptyWitnessWithFlag,
    SuperfluousIssuance,
    BadParamsTag(u8),
    Trailing(usize),
    TooLarge,
}

pub struct R<'a> {
    pub b: &'a [u8],
    pub pos: usize,
}

impl<'a> R<'a> {
    pub fn new(b: &'a [u8]) -> R<'a> {
        R { b, pos: 0 }
    }
    pub fn take(&mut self, n: usize) -> Result<&'a [u8], DecErr> {
        if self.b.len() - self.pos < n {
            return Err(DecErr::Eof);
        }
        let s = &self.b[self.pos..self.pos + n];
        self.pos += n;
        Ok(s)
    }
    pub fn u8(&mut self) -> Result<u8, DecErr> {
        Ok(self.take(1)?[0])
    }
    pub fn le32(&mut self) -> Result<u32, DecErr> {
        let s = self.take(4)?;
        Ok(u32::from_le_bytes([s[0], s[1], s[2], s[3]]))
    }
    pub fn a32(&mut self) -> Result<[u8; 32], DecErr> {
        let s = self.take(32)?;
        let mut a = [0u8; 32];
        a.copy_from_slice(s);
        Ok(a)
    }
    pub fn cs(&mut self) -> Result<u64, DecErr> {
        let t = self.u8()?;
        match t {
            0xfd => {
                let s = self.take(2)?;
                let v = u16::from_le_bytes([s[0], s[1]]) as u64;
                if v < 0xfd {
                    Err(DecErr::NonMinimalVarint)
                } else {
                    Ok(v)
                }
            }
            0xfe => {
                let v = self.le32()? as u64;
                if v <= 0xffff {
                    Err(DecErr::NonMinimalVarint)
                } else {
                    Ok(v)
                }
            }
            0xff => {
                let s = self.take(8)?;
                let mut a = [0u8; 8];
                a.copy_from_slice(s);
                let v = u64::from_le_bytes(a);
                if v <= 0xffff_ffff {
                    Err(DecErr::NonMinimalVarint)
                } else {
                    Ok(v)
                }
            }
            x => Ok(x as u64),
        }
    }
    pub fn vb(&mut self) -> Result<Vec<u8>, DecErr> {
        let n = self.cs()?;
        if n > self.b.len() as u64 {
            return Err(DecErr::Eof);
        }
        Ok(self.take(n as usize)?.to_vec())
    }
    pub fn vvb(&mut self) -> Result<Vec<Vec<u8>>, DecErr> {
        let n = self.cs()?;
        if n > self.b.len() as u64 {
            return Err(DecErr::Eof);
        }
        let mut v = Vec::new();
        for _ in 0..n {
            v.push(self.vb()?);
        }
        Ok(v)
    }
    pub fn done(&self) -> Result<(), DecErr> {
        if self.pos == self.b.len() {
            Ok(())
        } else {
            Err(DecErr::Trailing(self.b.len() - self.pos))
        }
    }
}

fn point33(r: &mut R, p: u8) -> Result<[u8; 33], DecErr> {
    let x = r.take(32)?;
    let mut c = [0u8; 33];
    c[0] = p;
    c[1..].copy_from_slice(x);
    Ok(c)
}

pub fn dec_value(r: &mut R) -> Result<RValue, DecErr> {
    match r.u8()? {
        0 => Ok(RValue::Null),
        1 => {
            let s = r.take(8)?;
            let mut a = [0u8; 8];
            a.copy_from_slice(s);
            Ok(RValue::Explicit(u64::from_be_bytes(a)))
        }
        p @ (8 | 9) => {
            let c = point33(r, p)?;
            zkp::PedersenCommitment::from_slice(&c).map_err(|_| DecErr::BadPoint("value"))?;
            Ok(RValue::Conf(c))
        }
        p => Err(DecErr::BadPrefix("value", p)),
    }
}
pub fn dec_asset(r: &mut R) -> Result<RAsset, DecErr> {
    match r.u8()? {
        0 => Ok(RAsset::Null),
        1 => Ok(RAsset::Explicit(r.a32()?)),
        p @ (0x0a | 0x0b) => {
            let c = point33(r, p)?;
            zkp::Generator::from_slice(&c).map_err(|_| DecErr::BadPoint("asset"))?;
            Ok(RAsset::Conf(c))
        }
        p => Err(DecErr::BadPrefix("asset", p)),
    }
}
pub fn dec_nonce(r: &mut R) -> Result<RNonce, DecErr> {
    match r.u8()? {
        0 => Ok(RNonce::Null),
        1 => Ok(RNonce::Explicit(r.a32()?)),
        p @ (2 | 3) => {
            let c = point33(r, p)?;
            zkp::PublicKey::from_slice(&c).map_err(|_| DecErr::BadPoint("nonce"))?;
            Ok(RNonce::Conf(c))
        }
        p => Err(DecErr::BadPrefix("nonce", p)),
    }
}
pub fn dec_issuance(r: &mut R) -> Result<RIssuance, DecErr> {
    let nonce = r.a32()?;
    zkp::Tweak::from_slice(&nonce).map_err(|_| DecErr::BadScalar)?;
    let entropy = r.a32()?;
    let amount = dec_value(r)?;
    let keys = dec_value(r)?;
    Ok(RIssuance { nonce, entropy, amount, keys })
}
pub fn dec_txin(r: &mut R) -> Result<RTxIn, DecErr> {
    let txid = r.a32()?;
    let wire = r.le32()?;
    let script_sig = r.vb()?;
    let sequence = r.le32()?;
    let (vout, pegin, has_iss) = if wire == 0xffff_ffff {
        (wire, false, false)
    } else {
        (wire & 0x3fff_ffff, wire & (1 << 30) != 0, wire & (1 << 31) != 0)
    };
    let issuance = if has_iss {
        let i = dec_issuance(r)?;
        if i.is_null() {
            return Err(DecErr::SuperfluousIssuance);
        }
        Some(i)
    } else {
        None
    };
    Ok(RTxIn { txid, vout, pegin, script_sig, sequence, issuance, witness: RInWit::default() })
}
pub fn dec_txout(r: &mut R) -> Result<RTxOut, DecErr> {
    Ok(RTxOut {
        asset: dec_asset(r)?,
        value: dec_value(r)?,
        nonce: dec_nonce(r)?,
        spk: r.vb()?,
        witness: ROutWit::default(),
    })
}
fn dec_rangeproof(r: &mut R) -> Result<Vec<u8>, DecErr> {
    let b = r.vb()?;
    if !b.is_empty() {
        zkp::RangeProof::from_slice(&b).map_err(|_| DecErr::BadProof("range"))?;
    }
    Ok(b)
}
fn dec_surjproof(r: &mut R) -> Result<Vec<u8>, DecErr> {
    let b = r.vb()?;
    if !b.is_empty() {
        zkp::SurjectionProof::from_slice(&b).map_err(|_| DecErr::BadProof("surjection"))?;
    }
    Ok(b)
}
pub fn dec_inwit(r: &mut R) -> Result<RInWit, DecErr> {
    Ok(RInWit {
        amount_proof: dec_rangeproof(r)?,
        keys_proof: dec_rangeproof(r)?,
        script_witness: r.vvb()?,
        pegin_witness: r.vvb()?,
    })
}
pub fn dec_outwit(r: &mut R) -> Result<ROutWit, DecErr> {
    Ok(ROutWit { surj: dec_surjproof(r)?, range: dec_rangeproof(r)? })
}
pub fn dec_tx(r: &mut R) -> Result<RTx, DecErr> {
    let version = r.le32()?;
    let flag = r.u8()?;
    let nin = r.cs()?;
    if nin > r.b.len() as u64 {
        return Err(DecErr::Eof);
    }
    let mut ins = Vec::new();
    for _ in 0..nin {
        ins.push(dec_txin(r)?);
    }
    let nout = r.cs()?;
    if nout > r.b.len() as u64 {
        return Err(DecErr::Eof);
    }
    let mut outs = Vec::new();
    for _ in 0..nout {
        outs.push(dec_txout(r)?);
    }
    let lock_time = r.le32()?;
    match flag {
        0 => {}
        1 => {
            for i in ins.iter_mut() {
                i.witness = dec_inwit(r)?;
            }
            for o in outs.iter_mut() {
                o.witness = dec_outwit(r)?;
            }
            if ins.iter().all(|i| i.witness.is_empty()) && outs.iter().all(|o| o.witness.is_empty()) {
                return Err(DecErr::EmptyWitnessWithFlag);
            }
        }
        f => return Err(DecErr::BadWitFlag(f)),
    }
    Ok(RTx { version, lock_time, ins, outs })
}
pub fn dec_params(r: &mut R) -> Result<RParams, DecErr> {
    match r.u8()? {
        0 => Ok(RParams::Null),
        1 => Ok(RParams::Compact { script: r.vb()?, limit: r.le32()?, elided: r.a32()? }),
        2 => Ok(RParams::Full {
            script: r.vb()?,
            limit: r.le32()?,
            fedpeg_program: r.vb()?,
            fedpegscript: r.vb()?,
            ext: r.vvb()?,
        }),
        t => Err(DecErr::BadParamsTag(t)),
    }
}
pub fn dec_header(r: &mut R) -> Result<RHeader, DecErr> {
    let v = r.le32()?;
    let dyna = v >> 31 == 1;
    let version = v & 0x7fff_ffff;
    let prev = r.a32()?;
    let merkle = r.a32()?;
    let time = r.le32()?;
    let height = r.le32()?;
    let ext = if dyna {
        RExt::Dynafed { current: dec_params(r)?, proposed: dec_params(r)?, witness: r.vvb()? }
    } else {
        RExt::Proof { challenge: r.vb()?, solution: r.vb()? }
    };
    Ok(RHeader { version, prev, merkle, time, height, ext })
}
pub fn dec_block(r: &mut R) -> Result<RBlock, DecErr> {
    let header = dec_header(r)?;
    let n = r.cs()?;
    if n > r.b.len() as u64 {
        return Err(DecErr::Eof);
    }
    let mut txs = Vec::new();
    for _ in 0..n {
        txs.push(dec_tx(r)?);
    }
    Ok(RBlock { header, txs })
}

/// decode a whole byte string as T (all consumed)
pub fn whole<T>(b: &[u8], f: impl FnOnce(&mut R) -> Result<T, DecErr>) -> Result<T, DecErr> {
    let mut r = R::new(b);
    let v = f(&mut r)?;
    r.done()?;
    Ok(v)
}
