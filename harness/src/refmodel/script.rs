//! Reference script model: minimal push prefixes, script-number coding, instruction
//! parsing and byte-pattern template predicates (written from the Bitcoin/Elements
//! script rules, independent of `elements::script`).

#[derive(Clone, Debug, PartialEq, Eq)]
pub enum Ins {
    Push(Vec<u8>),
    Op(u8),
}

#[derive(Clone, Debug, PartialEq, Eq)]
pub enum PErr {
    EarlyEnd,
}

/// shortest length prefix for a data push of `n` bytes
pub fn push_prefix(n: usize) -> Vec<u8> {
    if n < 0x4c {
        vec![n as u8]
    } else if n < 0x100 {
        vec![0x4c, n as u8]
    } else if n < 0x10000 {
        vec![0x4d, (n & 0xff) as u8, (n >> 8) as u8]
    } else {
        vec![0x4e, (n & 0xff) as u8, ((n >> 8) & 0xff) as u8, ((n >> 16) & 0xff) as u8, ((n >> 24) & 0xff) as u8]
    }
}

pub fn push(data: &[u8]) -> Vec<u8> {
    let mut v = push_prefix(data.len());
    v.extend_from_slice(data);
    v
}

/// little-endian sign-magnitude, minimal length
pub fn scriptnum(n: i64) -> Vec<u8> {
    if n == 0 {
        return vec![];
    }
    let neg = n < 0;
    let mut abs = (n as i128).unsigned_abs();
    let mut v = Vec::new();
    while abs > 0 {
        v.push((abs & 0xff) as u8);
        abs >>= 8;
    }
    if v.last().unwrap() & 0x80 != 0 {
        v.push(if neg { 0x80 } else { 0 });
    } else if neg {
        *v.last_mut().unwrap() |= 0x80;
    }
    v
}

/// decode sign-magnitude of any length up to 8 bytes (None if longer)
pub fn read_scriptnum_wide(v: &[u8]) -> Option<i128> {
    if v.is_empty() {
        return Some(0);
    }
    if v.len() > 9 {
        return None;
    }
    let mut r: i128 = 0;
    for (i, b) in v.iter().enumerate() {
        r |= (*b as i128) << (8 * i);
    }
    if v[v.len() - 1] & 0x80 != 0 {
        r &= !(0x80i128 << (8 * (v.len() - 1)));
        r = -r;
    }
    Some(r)
}

/// non-minimal-tolerant instruction parser; stops after the first error
pub fn parse(b: &[u8]) -> Vec<Result<Ins, PErr>> {
    let mut out = Vec::new();
    let mut i = 0;
    while i < b.len() {
        let op = b[i];
        let (hdr, n) = match op {
            0..=0x4b => (1usize, op as usize),
            0x4c => {
                if b.len() - i < 2 {
                    out.push(Err(PErr::EarlyEnd));
                    return out;
                }
                (2, b[i + 1] as usize)
            }
            0x4d => {
                if b.len() - i < 3 {
                    out.push(Err(PErr::EarlyEnd));
                    return out;
                }
                (3, b[i + 1] as usize | (b[i + 2] as usize) << 8)
            }
            0x4e => {
                if b.len() - i < 5 {
                    out.push(Err(PErr::EarlyEnd));
                    return out;
                }
                (5, b[i + 1] as usize | (b[i + 2] as usize) << 8 | (b[i + 3] as usize) << 16 | (b[i + 4] as usize) << 24)
            }
            _ => {
                out.push(Ok(Ins::Op(op)));
                i += 1;
                continue;
            }
        };
        if b.len() - i - hdr < n {
            out.push(Err(PErr::EarlyEnd));
            return out;
        }
        out.push(Ok(Ins::Push(b[i + hdr..i + hdr + n].to_vec())));
        i += hdr + n;
    }
    out
}

pub fn is_p2pkh(b: &[u8]) -> bool {
    b.len() == 25 && b[0] == 0x76 && b[1] == 0xa9 && b[2] == 0x14 && b[23] == 0x88 && b[24] == 0xac
}
pub fn is_p2sh(b: &[u8]) -> bool {
    b.len() == 23 && b[0] == 0xa9 && b[1] == 0x14 && b[22] == 0x87
}
pub fn is_p2pk(b: &[u8]) -> bool {
    (b.len() == 67 && b[0] == 65 && b[66] == 0xac) || (b.len() == 35 && b[0] == 33 && b[34] == 0xac)
}
/// (version, program) if the script is `OP_n <2..40 byte push>` and nothing else
pub fn witness_program(b: &[u8]) -> Option<(u8, &[u8])> {
    if b.len() < 4 || b.len() > 42 {
        return None;
    }
    let v = match b[0] {
        0 => 0,
        0x51..=0x60 => b[0] - 0x50,
        _ => return None,
    };
    let n = b[1] as usize;
    if !(2..=40).contains(&n) || b.len() != n + 2 {
        return None;
    }
    Some((v, &b[2..]))
}
pub fn is_op_return(b: &[u8]) -> bool {
    !b.is_empty() && b[0] == 0x6a
}
pub fn is_provably_unspendable(b: &[u8]) -> bool {
    is_op_return(b) || b.len() > 10_000 || b.is_empty()
}
