//! Reference BIP370 lock-time rule and reference PSET -> transaction extraction,
//! reading only public PSET fields.
use super::ser::{self, RInWit, RIssuance, RNonce, ROutWit, RTx, RTxIn, RTxOut, RValue, RAsset};
use elements::pset::{Input, Output};

#[derive(Debug, Clone, PartialEq, Eq)]
pub enum LockErr {
    Conflict,
}

/// BIP370: inputs = (required time, required height); fallback is used when no input
/// constrains the lock time. Height is preferred when both kinds are supported by all.
pub fn locktime(reqs: &[(Option<u32>, Option<u32>)], fallback: Option<u32>) -> Result<u32, LockErr> {
    let constrained: Vec<&(Option<u32>, Option<u32>)> = reqs.iter().filter(|r| r.0.is_some() || r.1.is_some()).collect();
    if constrained.is_empty() {
        return Ok(fallback.unwrap_or(0));
    }
    let height_all = constrained.iter().all(|r| r.1.is_some());
    let time_all = constrained.iter().all(|r| r.0.is_some());
    if height_all {
        Ok(constrained.iter().map(|r| r.1.unwrap()).max().unwrap())
    } else if time_all {
        Ok(constrained.iter().map(|r| r.0.unwrap()).max().unwrap())
    } else {
        Err(LockErr::Conflict)
    }
}

pub fn input_reqs(i: &Input) -> (Option<u32>, Option<u32>) {
    (i.required_time_locktime.map(|t| t.to_consensus_u32()), i.required_height_locktime.map(|h| h.to_consensus_u32()))
}

fn rproof(p: &Option<Box<elements::secp256k1_zkp::RangeProof>>) -> Vec<u8> {
    p.as_ref().map(|x| x.serialize()).unwrap_or_default()
}

/// What the extracted input must be, field by field.
pub fn extract_input(i: &Input) -> RTxIn {
    let idx = i.previous_output_index;
    let (vout, pegin) = if idx == 0xffff_ffff { (idx, false) } else { (idx & 0x3fff_ffff, idx & (1 << 30) != 0) };
    let amount = match (i.issuance_value_amount, i.issuance_value_comm) {
        (_, Some(c)) => RValue::Conf(c.serialize()),
        (Some(v), None) => RValue::Explicit(v),
        (None, None) => RValue::Null,
    };
    let keys = match (i.issuance_inflation_keys, i.issuance_inflation_keys_comm) {
        (_, Some(c)) => RValue::Conf(c.serialize()),
        (Some(v), None) => RValue::Explicit(v),
        (None, None) => RValue::Null,
    };
    let iss = RIssuance {
        nonce: i.issuance_blinding_nonce.map(|t| *t.as_ref()).unwrap_or([0u8; 32]),
        entropy: i.issuance_asset_entropy.unwrap_or([0u8; 32]),
        amount,
        keys,
    };
    RTxIn {
        txid: ser::txid_bytes(&i.previous_txid),
        vout,
        pegin,
        script_sig: i.final_script_sig.as_ref().map(|s| s.to_bytes()).unwrap_or_default(),
        sequence: i.sequence.map(|s| s.0).unwrap_or(0xffff_ffff),
        issuance: if iss.is_null() { None } else { Some(iss) },
        witness: RInWit {
            amount_proof: rproof(&i.issuance_value_rangeproof),
            keys_proof: rproof(&i.issuance_keys_rangeproof),
            script_witness: i.final_script_witness.clone().unwrap_or_default(),
            pegin_witness: i.pegin_witness.clone().unwrap_or_default(),
        },
    }
}

/// None if the output lacks an amount or an asset
pub fn extract_output(o: &Output) -> Option<RTxOut> {
    let asset = match (o.asset_comm, o.asset) {
        (Some(g), _) => RAsset::Conf(g.serialize()),
        (None, Some(a)) => RAsset::Explicit(ser::asset_id_bytes(&a)),
        (None, None) => return None,
    };
    let value = match (o.amount_comm, o.amount) {
        (Some(c), _) => RValue::Conf(c.serialize()),
        (None, Some(v)) => RValue::Explicit(v),
        (None, None) => return None,
    };
    Some(RTxOut {
        asset,
        value,
        nonce: o.ecdh_pubkey.map(|k| RNonce::Conf(k.inner.serialize())).unwrap_or(RNonce::Null),
        spk: o.script_pubkey.to_bytes(),
        witness: ROutWit {
            surj: o.asset_surjection_proof.as_ref().map(|p| p.serialize()).unwrap_or_default(),
            range: rproof(&o.value_rangeproof),
        },
    })
}

pub fn extract(p: &elements::pset::PartiallySignedTransaction) -> Option<Result<RTx, LockErr>> {
    let reqs: Vec<_> = p.inputs().iter().map(input_reqs).collect();
    let fallback = p.global.tx_data.fallback_locktime.map(|l| l.to_consensus_u32());
    let lt = match locktime(&reqs, fallback) {
        Ok(l) => l,
        Err(e) => return Some(Err(e)),
    };
    let mut outs = Vec::new();
    for o in p.outputs() {
        outs.push(extract_output(o)?);
    }
    Some(Ok(RTx { version: p.global.tx_data.version, lock_time: lt, ins: p.inputs().iter().map(extract_input).collect(), outs }))
}
