//! Reference address codecs: base58check, bech32 / bech32m (BIP173/350) and
//! blech32 / blech32m (Elements), written from the specifications (DESIGN.md B.3).
use super::sha;

pub const CHARSET: &[u8; 32] = b"qpzry9x8gf2tvdw0s3jn54khce6mua7l";
const B58: &[u8; 58] = b"123456789ABCDEFGHJKLMNPQRSTUVWXYZabcdefghijkmnopqrstuvwxyz";

pub fn base58(data: &[u8]) -> String {
    let zeros = data.iter().take_while(|b| **b == 0).count();
    let mut digits: Vec<u8> = Vec::new(); // little-endian base-58 digits
    for &byte in data {
        let mut carry = byte as u32;
        for d in digits.iter_mut() {
            let v = (*d as u32) * 256 + carry;
            *d = (v % 58) as u8;
            carry = v / 58;
        }
        while carry > 0 {
            digits.push((carry % 58) as u8);
            carry /= 58;
        }
    }
    let mut s = String::new();
    for _ in 0..zeros {
        s.push('1');
    }
    for d in digits.iter().rev() {
        s.push(B58[*d as usize] as char);
    }
    s
}

pub fn base58check(payload: &[u8]) -> String {
    let mut v = payload.to_vec();
    v.extend_from_slice(&sha::sha256d(payload)[..4]);
    base58(&v)
}

/// base58check with a deliberately wrong checksum
pub fn base58check_bad(payload: &[u8]) -> String {
    let mut v = payload.to_vec();
    let mut c = sha::sha256d(payload)[..4].to_vec();
    c[3] ^= 1;
    v.extend_from_slice(&c);
    base58(&v)
}

#[derive(Clone, Copy, PartialEq, Eq, Debug)]
pub enum Variant {
    Bech32,
    Bech32m,
    Blech32,
    Blech32m,
}

impl Variant {
    pub fn checksum_len(self) -> usize {
        match self {
            Variant::Bech32 | Variant::Bech32m => 6,
            _ => 12,
        }
    }
    pub fn constant(self) -> u64 {
        match self {
            Variant::Bech32 => 1,
            Variant::Bech32m => 0x2bc830a3,
            Variant::Blech32 => 1,
            Variant::Blech32m => 0x455972a3350f7a1,
        }
    }
    pub fn is_blech(self) -> bool {
        matches!(self, Variant::Blech32 | Variant::Blech32m)
    }
}

fn polymod32(values: &[u8]) -> u64 {
    const GEN: [u32; 5] = [0x3b6a57b2, 0x26508e6d, 0x1ea119fa, 0x3d4233dd, 0x2a1462b3];
    let mut chk: u32 = 1;
    for &v in values {
        let b = chk >> 25;
        chk = ((chk & 0x1ffffff) << 5) ^ (v as u32);
        for (i, g) in GEN.iter().enumerate() {
            if (b >> i) & 1 == 1 {
                chk ^= g;
            }
        }
    }
    chk as u64
}

fn polymod64(values: &[u8]) -> u64 {
    const GEN: [u64; 5] = [0x7d52fba40bd886, 0x5e8dbf1a03950c, 0x1c3a3c74072a18, 0x385d72fa0e5139, 0x7093e5a608865b];
    let mut chk: u64 = 1;
    for &v in values {
        let b = chk >> 55;
        chk = ((chk & 0x7fffffffffffff) << 5) ^ (v as u64);
        for (i, g) in GEN.iter().enumerate() {
            if (b >> i) & 1 == 1 {
                chk ^= g;
            }
        }
    }
    chk
}

fn hrp_expand(hrp: &str) -> Vec<u8> {
    let h = hrp.to_ascii_lowercase();
    let mut v: Vec<u8> = h.bytes().map(|c| c >> 5).collect();
    v.push(0);
    v.extend(h.bytes().map(|c| c & 31));
    v
}

pub fn checksum(variant: Variant, hrp: &str, data5: &[u8]) -> Vec<u8> {
    let n = variant.checksum_len();
    let mut v = hrp_expand(hrp);
    v.extend_from_slice(data5);
    v.extend(std::iter::repeat(0).take(n));
    let pm = if variant.is_blech() { polymod64(&v) } else { polymod32(&v) } ^ variant.constant();
    (0..n).map(|i| ((pm >> (5 * (n - 1 - i))) & 31) as u8).collect()
}

/// 8 -> 5 bit regrouping with zero padding
pub fn to5(bytes: &[u8]) -> Vec<u8> {
    let mut acc: u32 = 0;
    let mut bits = 0;
    let mut out = Vec::new();
    for &b in bytes {
        acc = (acc << 8) | b as u32;
        bits += 8;
        while bits >= 5 {
            bits -= 5;
            out.push(((acc >> bits) & 31) as u8);
        }
    }
    if bits > 0 {
        out.push(((acc << (5 - bits)) & 31) as u8);
    }
    out
}

/// Encode a string from an HRP and 5-bit data symbols (witness version symbol first).
pub fn encode5(variant: Variant, hrp: &str, data5: &[u8]) -> String {
    let mut s = String::from(hrp);
    s.push('1');
    for &d in data5 {
        s.push(CHARSET[d as usize] as char);
    }
    for d in checksum(variant, hrp, data5) {
        s.push(CHARSET[d as usize] as char);
    }
    s
}

/// Segwit-style address: version symbol + regrouped payload bytes.
pub fn segwit(variant: Variant, hrp: &str, version: u8, payload: &[u8]) -> String {
    let mut d = vec![version];
    d.extend(to5(payload));
    encode5(variant, hrp, &d)
}

pub fn variant_for(version: u8, blinded: bool) -> Variant {
    match (version == 0, blinded) {
        (true, false) => Variant::Bech32,
        (false, false) => Variant::Bech32m,
        (true, true) => Variant::Blech32,
        (false, true) => Variant::Blech32m,
    }
}

#[derive(Clone, Copy, Debug, PartialEq, Eq)]
pub struct Net {
    pub name: &'static str,
    pub p2pkh: u8,
    pub p2sh: u8,
    pub blinded: u8,
    pub hrp: &'static str,
    pub blech_hrp: &'static str,
}

pub const NETS: [Net; 3] = [
    Net { name: "liquid", p2pkh: 57, p2sh: 39, blinded: 12, hrp: "ex", blech_hrp: "lq" },
    Net { name: "elements", p2pkh: 235, p2sh: 75, blinded: 4, hrp: "ert", blech_hrp: "el" },
    Net { name: "liquidtestnet", p2pkh: 36, p2sh: 19, blinded: 23, hrp: "tex", blech_hrp: "tlq" },
];

#[derive(Clone, Debug, PartialEq, Eq)]
pub enum RPayload {
    Pkh([u8; 20]),
    Sh([u8; 20]),
    Wit(u8, Vec<u8>),
}

/// Canonical text form of an address according to the specification.
pub fn address(net: &Net, payload: &RPayload, blinder: Option<&[u8; 33]>) -> String {
    match payload {
        RPayload::Pkh(h) | RPayload::Sh(h) => {
            let ver = if matches!(payload, RPayload::Pkh(_)) { net.p2pkh } else { net.p2sh };
            let mut p = Vec::new();
            if let Some(b) = blinder {
                p.push(net.blinded);
                p.push(ver);
                p.extend_from_slice(&b[..]);
            } else {
                p.push(ver);
            }
            p.extend_from_slice(h);
            base58check(&p)
        }
        RPayload::Wit(v, prog) => match blinder {
            Some(b) => {
                let mut p = b.to_vec();
                p.extend_from_slice(prog);
                segwit(variant_for(*v, true), net.blech_hrp, *v, &p)
            }
            None => segwit(variant_for(*v, false), net.hrp, *v, prog),
        },
    }
}
