//! Reference PSET framing (BIP174/370 key-value maps): parse a byte string into maps of
//! raw (key, value) pairs and write them back. Used by the mutators (reorder / duplicate /
//! delete pairs, edit counts) independently of the library's map codecs.
use super::merkle::cs;
use super::ser::{DecErr, R};

pub type RawPair = (Vec<u8>, Vec<u8>); // (key bytes incl. type byte, value bytes)

#[derive(Clone, Debug, PartialEq, Eq)]
pub struct RawPset {
    pub maps: Vec<Vec<RawPair>>,
}

pub fn parse(b: &[u8]) -> Result<RawPset, DecErr> {
    let mut r = R::new(b);
    let magic = r.take(5)?;
    if magic != b"pset\xff" {
        return Err(DecErr::BadPrefix("pset-magic", magic[0]));
    }
    let mut maps = Vec::new();
    while r.pos < b.len() {
        let mut pairs = Vec::new();
        loop {
            let klen = r.cs()?;
            if klen == 0 {
                break;
            }
            if klen > b.len() as u64 {
                return Err(DecErr::Eof);
            }
            let key = r.take(klen as usize)?.to_vec();
            let value = r.vb()?;
            pairs.push((key, value));
        }
        maps.push(pairs);
    }
    Ok(RawPset { maps })
}

pub fn write(p: &RawPset) -> Vec<u8> {
    let mut out = b"pset\xff".to_vec();
    for m in &p.maps {
        for (k, v) in m {
            out.extend(cs(k.len() as u64));
            out.extend_from_slice(k);
            out.extend(cs(v.len() as u64));
            out.extend_from_slice(v);
        }
        out.push(0);
    }
    out
}

/// number of inputs / outputs declared by the global map (None if absent or malformed)
pub fn declared_counts(p: &RawPset) -> Option<(u64, u64)> {
    let g = p.maps.first()?;
    let get = |t: u8| -> Option<u64> {
        let (_, v) = g.iter().find(|(k, _)| k.len() == 1 && k[0] == t)?;
        let mut r = R::new(v);
        r.cs().ok()
    };
    Some((get(0x04)?, get(0x05)?))
}
