//! Reference signature-hash algorithms (legacy, BIP143-elements, BIP341-elements),
//! written from the Elements consensus description (DESIGN.md B.2) over the reference
//! transaction model; no code shared with `elements::sighash`.
use super::ser::{RTx, RTxOut, W};
use super::sha;

#[derive(Debug, Clone, PartialEq, Eq)]
pub enum SigErr {
    IndexOutOfInputs,
    SingleWithoutOutput,
    PrevoutsSize,
    PrevoutIndex,
    PrevoutKind,
}

/// The legacy algorithm's result: either a preimage to be double-hashed or the
/// SIGHASH_SINGLE out-of-range constant (which IS the digest, it is not hashed).
pub enum Legacy {
    Preimage(Vec<u8>),
    One,
}

pub const ONE: [u8; 32] = {
    let mut a = [0u8; 32];
    a[0] = 1;
    a
};

fn txin_txform(w: &mut W, i: &super::ser::RTxIn, script: &[u8], sequence: u32) {
    // transaction-form input: flags folded into the index (pinned by the repository's
    // Elements-generated issuance vector), no witness
    w.raw(&i.txid, super::ser::Kind::Fixed);
    w.le32(i.wire_vout(), super::ser::Kind::Vout);
    w.vb(script);
    w.le32(sequence, super::ser::Kind::Fixed);
    if let Some(iss) = &i.issuance {
        iss.ser(w);
    }
}

pub fn legacy(tx: &RTx, idx: usize, script_code: &[u8], hash_type: u32) -> Legacy {
    let base = hash_type & 0x1f;
    let acp = hash_type & 0x80 != 0;
    if base == 3 && idx >= tx.outs.len() {
        return Legacy::One;
    }
    let mut w = W::new();
    w.le32(tx.version, super::ser::Kind::Fixed);
    if acp {
        w.cs(1);
        txin_txform(&mut w, &tx.ins[idx], script_code, tx.ins[idx].sequence);
    } else {
        w.cs(tx.ins.len() as u64);
        for (n, i) in tx.ins.iter().enumerate() {
            let seq = if n != idx && (base == 2 || base == 3) { 0 } else { i.sequence };
            let sc: &[u8] = if n == idx { script_code } else { &[] };
            txin_txform(&mut w, i, sc, seq);
        }
    }
    match base {
        2 => w.cs(0),
        3 => {
            w.cs(idx as u64 + 1);
            for n in 0..=idx {
                if n == idx {
                    tx.outs[n].ser(&mut w);
                } else {
                    // null output: null asset, null value, null nonce, empty script
                    w.raw(&[0, 0, 0, 0], super::ser::Kind::Fixed);
                }
            }
        }
        _ => {
            w.cs(tx.outs.len() as u64);
            for o in &tx.outs {
                o.ser(&mut w);
            }
        }
    }
    w.le32(tx.lock_time, super::ser::Kind::Fixed);
    w.le32(hash_type, super::ser::Kind::Fixed);
    Legacy::Preimage(w.buf)
}

pub fn legacy_digest(tx: &RTx, idx: usize, script_code: &[u8], hash_type: u32) -> [u8; 32] {
    match legacy(tx, idx, script_code, hash_type) {
        Legacy::One => ONE,
        Legacy::Preimage(p) => sha::sha256d(&p),
    }
}

fn outpoint_plain(w: &mut W, i: &super::ser::RTxIn) {
    w.raw(&i.txid, super::ser::Kind::Fixed);
    w.le32(i.vout, super::ser::Kind::Fixed);
}

fn issuance_or_zero(w: &mut W, i: &super::ser::RTxIn) {
    match &i.issuance {
        Some(iss) => iss.ser(w),
        None => w.raw(&[0], super::ser::Kind::Fixed),
    }
}

/// BIP143 with the Elements issuance extension. `value` is the serialized confidential value.
pub fn segwit_v0_preimage(tx: &RTx, idx: usize, script_code: &[u8], value: &super::ser::RValue, hash_type: u32) -> Vec<u8> {
    let base = hash_type & 0x1f;
    let acp = hash_type & 0x80 != 0;
    let zero = [0u8; 32];
    let hp = if acp {
        zero
    } else {
        let mut w = W::new();
        for i in &tx.ins {
            outpoint_plain(&mut w, i);
        }
        sha::sha256d(&w.buf)
    };
    let hs = if !acp && base != 2 && base != 3 {
        let mut w = W::new();
        for i in &tx.ins {
            w.le32(i.sequence, super::ser::Kind::Fixed);
        }
        sha::sha256d(&w.buf)
    } else {
        zero
    };
    let hi = if acp {
        zero
    } else {
        let mut w = W::new();
        for i in &tx.ins {
            issuance_or_zero(&mut w, i);
        }
        sha::sha256d(&w.buf)
    };
    let ho = if base != 2 && base != 3 {
        let mut w = W::new();
        for o in &tx.outs {
            o.ser(&mut w);
        }
        sha::sha256d(&w.buf)
    } else if base == 3 && idx < tx.outs.len() {
        let mut w = W::new();
        tx.outs[idx].ser(&mut w);
        sha::sha256d(&w.buf)
    } else {
        zero
    };
    let mut w = W::new();
    w.le32(tx.version, super::ser::Kind::Fixed);
    w.raw(&hp, super::ser::Kind::Fixed);
    w.raw(&hs, super::ser::Kind::Fixed);
    w.raw(&hi, super::ser::Kind::Fixed);
    let i = &tx.ins[idx];
    outpoint_plain(&mut w, i);
    w.vb(script_code);
    value.ser(&mut w);
    w.le32(i.sequence, super::ser::Kind::Fixed);
    if let Some(iss) = &i.issuance {
        iss.ser(&mut w);
    }
    w.raw(&ho, super::ser::Kind::Fixed);
    w.le32(tx.lock_time, super::ser::Kind::Fixed);
    w.le32(hash_type, super::ser::Kind::Fixed);
    w.buf
}

pub fn segwit_v0_digest(tx: &RTx, idx: usize, script_code: &[u8], value: &super::ser::RValue, hash_type: u32) -> [u8; 32] {
    sha::sha256d(&segwit_v0_preimage(tx, idx, script_code, value, hash_type))
}

pub enum RPrevouts<'a> {
    All(&'a [RTxOut]),
    One(usize, &'a RTxOut),
}

pub struct TapArgs<'a> {
    pub idx: usize,
    pub prevouts: RPrevouts<'a>,
    /// one of 0,1,2,3,0x81,0x82,0x83
    pub hash_type: u8,
    pub annex: Option<&'a [u8]>,
    /// (leaf hash, code separator position)
    pub leaf: Option<([u8; 32], u32)>,
    pub genesis: [u8; 32],
}

pub fn tap_leaf_hash(version: u8, script: &[u8]) -> [u8; 32] {
    let mut m = vec![version];
    m.extend_from_slice(&super::merkle::vb(script));
    sha::tagged("TapLeaf/elements", &m)
}

fn proofs_pair(w: &mut W, i: &super::ser::RTxIn) {
    w.vb(&i.witness.amount_proof);
    w.vb(&i.witness.keys_proof);
}

pub fn taproot_preimage(tx: &RTx, a: &TapArgs) -> Result<Vec<u8>, SigErr> {
    use super::ser::Kind::Fixed;
    if let RPrevouts::All(p) = &a.prevouts {
        if p.len() != tx.ins.len() {
            return Err(SigErr::PrevoutsSize);
        }
    }
    let acp = a.hash_type & 0x80 != 0;
    let out_type = a.hash_type & 3; // 0 default(all), 1 all, 2 none, 3 single
    let mut w = W::new();
    w.raw(&a.genesis, Fixed);
    w.raw(&a.genesis, Fixed);
    w.raw(&[a.hash_type], Fixed);
    w.le32(tx.version, Fixed);
    w.le32(tx.lock_time, Fixed);
    if !acp {
        let all = match &a.prevouts {
            RPrevouts::All(p) => *p,
            RPrevouts::One(..) => return Err(SigErr::PrevoutKind),
        };
        let mut flags = W::new();
        let mut outpoints = W::new();
        let mut amounts = W::new();
        let mut spks = W::new();
        let mut seqs = W::new();
        let mut iss = W::new();
        let mut issproofs = W::new();
        for i in &tx.ins {
            flags.raw(&[i.flag_byte()], Fixed);
            outpoint_plain(&mut outpoints, i);
            seqs.le32(i.sequence, Fixed);
            issuance_or_zero(&mut iss, i);
            proofs_pair(&mut issproofs, i);
        }
        for p in all {
            p.asset.ser(&mut amounts);
            p.value.ser(&mut amounts);
            spks.vb(&p.spk);
        }
        w.raw(&sha::sha256(&flags.buf), Fixed);
        w.raw(&sha::sha256(&outpoints.buf), Fixed);
        w.raw(&sha::sha256(&amounts.buf), Fixed);
        w.raw(&sha::sha256(&spks.buf), Fixed);
        w.raw(&sha::sha256(&seqs.buf), Fixed);
        w.raw(&sha::sha256(&iss.buf), Fixed);
        w.raw(&sha::sha256(&issproofs.buf), Fixed);
    }
    if out_type == 0 || out_type == 1 {
        let mut outs = W::new();
        let mut wits = W::new();
        for o in &tx.outs {
            o.ser(&mut outs);
            o.witness.ser(&mut wits);
        }
        w.raw(&sha::sha256(&outs.buf), Fixed);
        w.raw(&sha::sha256(&wits.buf), Fixed);
    }
    let spend_type = (if a.leaf.is_some() { 2u8 } else { 0 }) | (if a.annex.is_some() { 1 } else { 0 });
    w.raw(&[spend_type], Fixed);
    if acp {
        let i = tx.ins.get(a.idx).ok_or(SigErr::IndexOutOfInputs)?;
        let p = match &a.prevouts {
            RPrevouts::All(p) => p.get(a.idx).ok_or(SigErr::PrevoutIndex)?,
            RPrevouts::One(k, p) => {
                if *k == a.idx {
                    *p
                } else {
                    return Err(SigErr::PrevoutIndex);
                }
            }
        };
        w.raw(&[i.flag_byte()], Fixed);
        outpoint_plain(&mut w, i);
        p.asset.ser(&mut w);
        p.value.ser(&mut w);
        w.vb(&p.spk);
        w.le32(i.sequence, Fixed);
        match &i.issuance {
            Some(iss) => {
                iss.ser(&mut w);
                let mut pr = W::new();
                proofs_pair(&mut pr, i);
                w.raw(&sha::sha256(&pr.buf), Fixed);
            }
            None => w.raw(&[0], Fixed),
        }
    } else {
        if a.idx >= tx.ins.len() {
            return Err(SigErr::IndexOutOfInputs);
        }
        w.le32(a.idx as u32, Fixed);
    }
    if let Some(annex) = a.annex {
        w.raw(&sha::sha256(&super::merkle::vb(annex)), Fixed);
    }
    if out_type == 3 {
        let o = tx.outs.get(a.idx).ok_or(SigErr::SingleWithoutOutput)?;
        let mut ow = W::new();
        o.ser(&mut ow);
        w.raw(&sha::sha256(&ow.buf), Fixed);
        let mut ww = W::new();
        o.witness.ser(&mut ww);
        w.raw(&sha::sha256(&ww.buf), Fixed);
    }
    if let Some((lh, pos)) = &a.leaf {
        w.raw(lh, Fixed);
        w.raw(&[0], Fixed);
        w.le32(*pos, Fixed);
    }
    Ok(w.buf)
}

pub fn taproot_digest(tx: &RTx, a: &TapArgs) -> Result<[u8; 32], SigErr> {
    Ok(sha::tagged("TapSighash/elements", &taproot_preimage(tx, a)?))
}
