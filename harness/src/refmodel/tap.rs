//! Reference taproot script-tree model with Elements' tags (DESIGN.md B.5).
use super::merkle::vb;
use super::sha;

#[derive(Clone, Debug)]
pub enum Tree {
    Leaf { script: Vec<u8>, ver: u8 },
    Hidden([u8; 32]),
    Node(Box<Tree>, Box<Tree>),
}

pub fn leaf_hash(ver: u8, script: &[u8]) -> [u8; 32] {
    let mut m = vec![ver];
    m.extend_from_slice(&vb(script));
    sha::tagged("TapLeaf/elements", &m)
}

pub fn branch_hash(a: &[u8; 32], b: &[u8; 32]) -> [u8; 32] {
    let (lo, hi) = if a <= b { (a, b) } else { (b, a) };
    let mut m = lo.to_vec();
    m.extend_from_slice(hi);
    sha::tagged("TapBranch/elements", &m)
}

pub fn tweak_hash(internal_xonly: &[u8; 32], root: Option<&[u8; 32]>) -> [u8; 32] {
    let mut m = internal_xonly.to_vec();
    if let Some(r) = root {
        m.extend_from_slice(r);
    }
    sha::tagged("TapTweak/elements", &m)
}

/// information about one (non-hidden) leaf of the tree
#[derive(Clone, Debug)]
pub struct LeafInfo {
    pub script: Vec<u8>,
    pub ver: u8,
    pub depth: usize,
    /// sibling hashes from the leaf up to the root
    pub path: Vec<[u8; 32]>,
}

impl Tree {
    pub fn hash(&self) -> [u8; 32] {
        match self {
            Tree::Leaf { script, ver } => leaf_hash(*ver, script),
            Tree::Hidden(h) => *h,
            Tree::Node(a, b) => branch_hash(&a.hash(), &b.hash()),
        }
    }
    pub fn leaves(&self) -> Vec<LeafInfo> {
        fn rec(t: &Tree, depth: usize, path_down: &mut Vec<[u8; 32]>, out: &mut Vec<LeafInfo>) {
            match t {
                Tree::Leaf { script, ver } => {
                    let mut p = path_down.clone();
                    p.reverse();
                    out.push(LeafInfo { script: script.clone(), ver: *ver, depth, path: p });
                }
                Tree::Hidden(_) => {}
                Tree::Node(a, b) => {
                    path_down.push(b.hash());
                    rec(a, depth + 1, path_down, out);
                    path_down.pop();
                    path_down.push(a.hash());
                    rec(b, depth + 1, path_down, out);
                    path_down.pop();
                }
            }
        }
        let mut out = Vec::new();
        rec(self, 0, &mut Vec::new(), &mut out);
        out
    }
    /// DFS sequence of (depth, node) for feeding a builder
    pub fn dfs(&self) -> Vec<(usize, &Tree)> {
        fn rec<'a>(t: &'a Tree, depth: usize, out: &mut Vec<(usize, &'a Tree)>) {
            match t {
                Tree::Node(a, b) => {
                    rec(a, depth + 1, out);
                    rec(b, depth + 1, out);
                }
                other => out.push((depth, other)),
            }
        }
        let mut out = Vec::new();
        rec(self, 0, &mut out);
        out
    }
}

/// Is `depths` the DFS leaf-depth sequence of a full binary tree? (slot-splitting check,
/// unrelated to the builder's combine-upwards algorithm)
pub fn valid_dfs_depths(depths: &[usize]) -> bool {
    if depths.is_empty() {
        return false;
    }
    // stack of open slots (depths), leftmost on top
    let mut slots = vec![0usize];
    for &d in depths {
        let Some(mut s) = slots.pop() else { return false };
        if d < s {
            return false;
        }
        while s < d {
            s += 1;
            slots.push(s); // right sibling stays open
        }
    }
    slots.is_empty()
}

/// all DFS depth sequences of full binary trees with exactly n leaves
pub fn shapes(n: usize) -> Vec<Vec<usize>> {
    if n == 1 {
        return vec![vec![0]];
    }
    let mut out = Vec::new();
    for l in 1..n {
        for a in shapes(l) {
            for b in shapes(n - l) {
                let mut v: Vec<usize> = a.iter().map(|d| d + 1).collect();
                v.extend(b.iter().map(|d| d + 1));
                out.push(v);
            }
        }
    }
    out
}

/// build a Tree value from a valid DFS depth sequence and the leaf nodes in order
pub fn from_dfs(depths: &[usize], nodes: Vec<Tree>) -> Tree {
    fn rec(depths: &[usize], nodes: &mut std::vec::IntoIter<Tree>, pos: &mut usize, d: usize) -> Tree {
        if depths[*pos] == d {
            *pos += 1;
            nodes.next().unwrap()
        } else {
            let a = rec(depths, nodes, pos, d + 1);
            let b = rec(depths, nodes, pos, d + 1);
            Tree::Node(Box::new(a), Box::new(b))
        }
    }
    let mut it = nodes.into_iter();
    let mut pos = 0;
    rec(depths, &mut it, &mut pos, 0)
}
