//! Harvest hex literals from the repository's own sources and test data. Every
//! string of >= 16 hex characters becomes a seed for the decoders / mutators.
use std::path::Path;

fn walk(dir: &Path, out: &mut Vec<std::path::PathBuf>) {
    if let Ok(rd) = std::fs::read_dir(dir) {
        let mut entries: Vec<_> = rd.flatten().map(|e| e.path()).collect();
        entries.sort();
        for p in entries {
            if p.is_dir() {
                walk(&p, out);
            } else {
                out.push(p);
            }
        }
    }
}

/// Extract hex literals, joining Rust string continuations (`\` newline) so that
/// multi-line vectors are recovered as one literal.
pub fn hex_literals(text: &str) -> Vec<String> {
    // remove continuation: backslash, newline, leading whitespace
    let mut joined = String::with_capacity(text.len());
    let mut it = text.chars().peekable();
    while let Some(c) = it.next() {
        if c == '\\' {
            if let Some('\n') = it.peek() {
                it.next();
                while let Some(&w) = it.peek() {
                    if w == ' ' || w == '\t' {
                        it.next();
                    } else {
                        break;
                    }
                }
                continue;
            }
        }
        joined.push(c);
    }
    let mut out = Vec::new();
    let mut cur = String::new();
    for c in joined.chars() {
        if c.is_ascii_hexdigit() {
            cur.push(c);
        } else {
            if cur.len() >= 16 && cur.len() % 2 == 0 {
                out.push(std::mem::take(&mut cur));
            }
            cur.clear();
        }
    }
    if cur.len() >= 16 && cur.len() % 2 == 0 {
        out.push(cur);
    }
    out
}

pub fn repo_root() -> String {
    std::env::var("VERIF_REPO").unwrap_or_else(|_| "/repo".to_string())
}

/// All harvested byte strings (deduplicated, deterministic order).
pub fn harvest() -> Vec<Vec<u8>> {
    let root = repo_root();
    let mut files = Vec::new();
    for sub in ["src", "tests", "examples", "elementsd-tests/src", "fuzz/fuzz_targets"] {
        walk(&Path::new(&root).join(sub), &mut files);
    }
    let mut seen = std::collections::BTreeSet::new();
    let mut out = Vec::new();
    for f in files {
        let Ok(data) = std::fs::read(&f) else { continue };
        let text = String::from_utf8_lossy(&data);
        for h in hex_literals(&text) {
            if let Some(b) = crate::rt::unhex(&h) {
                if seen.insert(b.clone()) {
                    out.push(b);
                }
            }
        }
    }
    out
}
