//! C04 — blinding yields a transaction that verifies and that receivers can unblind.
use crate::gen::blind::{self, Dials, Scenario};
use crate::gen::{self, with_secp};
use crate::rt::{guard, hex_short, Ctx};
use elements::confidential::{Asset, Nonce, Value};
use elements::encode::{deserialize, serialize};
use elements::secp256k1_zkp as zkp;
use elements::{Address, AddressParams, CtLocation, CtLocationType, Transaction, TxOut, TxOutSecrets};
use rand::{Rng, SeedableRng};
use serde_json::json;

pub fn describe(sc: &Scenario) -> serde_json::Value {
    json!({
        "shape": sc.shape,
        "tx": hex_short(&serialize(&sc.tx)),
        "spent": sc.spent.iter().map(|o| hex_short(&serialize(o))).collect::<Vec<_>>(),
        "secrets": sc.blind_secrets.iter().map(|s| format!("{:?}", s)).collect::<Vec<_>>(),
        "receiver_keys": sc.receivers.iter().map(|k| k.map(|k| k.display_secret().to_string())).collect::<Vec<_>>(),
    })
}

pub fn gen_scenario(r: &mut gen::Rg, d: &Dials) -> Scenario {
    // surjection-proof construction samples 3 domain entries at most 100 times: keep the
    // domain <= 8 so that honest failure has probability < 1e-20 (DESIGN.md C04 B/N)
    loop {
        let s = blind::scenario(r, d);
        if s.blind_secrets.len() <= 8 {
            return s;
        }
    }
}

/// all clauses of the property on a blinded transaction
pub fn check_blinded(
    ctx: &mut Ctx,
    sc: &Scenario,
    tx: &Transaction,
    reported: &dyn Fn(usize) -> Option<(elements::confidential::AssetBlindingFactor, elements::confidential::ValueBlindingFactor, Option<zkp::SecretKey>)>,
    via: &str,
) {
    let d = || {
        let mut v = describe(sc);
        v["blinded"] = json!(hex_short(&serialize(tx)));
        v["via"] = json!(via);
        v
    };
    // marked outputs fully blinded, the others untouched
    for (i, o) in tx.output.iter().enumerate() {
        if sc.receivers[i].is_some() {
            let full = o.asset.is_confidential() && o.value.is_confidential() && o.nonce.is_confidential() && o.witness.rangeproof.is_some() && o.witness.surjection_proof.is_some();
            ctx.check(full, &format!("marked-output-not-fully-blinded/{}", via), || json!({"output": i, "in": d()}));
            ctx.check(o.script_pubkey == sc.tx.output[i].script_pubkey, "blinding-changed-script", || json!({"output": i}));
        } else {
            ctx.check(*o == sc.tx.output[i], &format!("unmarked-output-changed/{}", via), || json!({"output": i, "in": d()}));
        }
    }
    // verification against the spent outputs, before and after a consensus round trip
    let rt: Result<Transaction, _> = deserialize(&serialize(tx));
    let forms: Vec<(&str, Transaction)> = match rt {
        Ok(t2) => {
            ctx.check(t2 == *tx, "blinded-tx-roundtrip-differs", d);
            vec![("direct", tx.clone()), ("after-roundtrip", t2)]
        }
        Err(e) => {
            ctx.violation("blinded-tx-does-not-decode", json!({"err": format!("{:?}", e), "in": d()}));
            vec![("direct", tx.clone())]
        }
    };
    for (form, t) in &forms {
        match guard(|| with_secp(|s| t.verify_tx_amt_proofs(s, &sc.spent))) {
            Ok(Ok(())) => ctx.count("verified"),
            Ok(Err(e)) => {
                let cls = format!("{:?}", e);
                let cls = cls.split('(').next().unwrap_or("?").to_string();
                ctx.violation(&format!("blinded-tx-fails-verification/{}/{}/{}", via, form, cls), json!({"err": format!("{:?}", e), "in": d()}));
            }
            Err(p) => ctx.panic_violation("verify_tx_amt_proofs", &p, d()),
        }
        for (i, o) in t.output.iter().enumerate() {
            let Some(sk) = sc.receivers[i] else { continue };
            ctx.eval();
            match guard(|| with_secp(|s| o.unblind(s, sk))) {
                Ok(Ok(sec)) => {
                    let (oa, ov) = sc.orig[i];
                    ctx.check(sec.asset == oa && sec.value == ov, &format!("unblinded-asset-or-value-differs/{}", via), || {
                        json!({"output": i, "expected": format!("{:?} {}", oa, ov), "observed": format!("{:?} {}", sec.asset, sec.value), "in": d()})
                    });
                    if let Some((abf, vbf, esk)) = reported(i) {
                        ctx.check(sec.asset_bf == abf && sec.value_bf == vbf, &format!("unblinded-factors!=reported/{}", via), || json!({"output": i, "in": d()}));
                        // reported factors reproduce the commitments
                        let (ea, ev) = with_secp(|s| (Asset::new_confidential(s, oa, abf), Value::new_confidential_from_assetid(s, ov, oa, vbf, abf)));
                        ctx.check(ea == o.asset, &format!("reported-abf-does-not-reproduce-asset-commitment/{}", via), || json!({"output": i, "in": d()}));
                        ctx.check(ev == o.value, &format!("reported-vbf-does-not-reproduce-value-commitment/{}", via), || json!({"output": i, "in": d()}));
                        if let Some(esk) = esk {
                            let epk = with_secp(|s| zkp::PublicKey::from_secret_key(s, &esk));
                            ctx.check(o.nonce == Nonce::Confidential(epk), &format!("nonce!=pubkey(reported-ephemeral-key)/{}", via), || json!({"output": i, "in": d()}));
                        }
                    } else {
                        ctx.violation(&format!("no-factors-reported-for-blinded-output/{}", via), json!({"output": i, "in": d()}));
                    }
                    ctx.count("unblinded");
                }
                Ok(Err(e)) => {
                    let cls = format!("{:?}", e);
                    let cls = cls.split('(').next().unwrap_or("?").to_string();
                    ctx.violation(&format!("receiver-cannot-unblind/{}/{}/{}", via, form, cls), json!({"output": i, "err": format!("{:?}", e), "in": d()}));
                }
                Err(p) => ctx.panic_violation("TxOut::unblind", &p, d()),
            }
            // a different key must not open it (informational sanity of the oracle)
            if *form == "direct" {
                let wrong = gen::secret_key(&mut ctx.rng);
                if let Ok(s) = with_secp(|s| o.unblind(s, wrong)) {
                    ctx.seen("unblind-with-wrong-key-succeeded(informational)", &format!("{:?}", s.value));
                }
            }
        }
    }
}

pub fn run_blind(ctx: &mut Ctx, sc: &Scenario, seed: u64) -> Option<Transaction> {
    let mut tx = sc.tx.clone();
    let mut brng = rand_chacha::ChaCha20Rng::seed_from_u64(seed);
    let res = guard(|| with_secp(|s| tx.blind(&mut brng, s, &sc.blind_secrets, false)));
    match res {
        Ok(Ok(map)) => {
            let get = |i: usize| map.get(&CtLocation { input_index: i, ty: CtLocationType::Input }).map(|(a, v, k)| (*a, *v, Some(*k)));
            check_blinded(ctx, sc, &tx, &get, "Transaction::blind");
            ctx.check(map.len() == sc.receivers.iter().filter(|r| r.is_some()).count(), "blind-map-size!=marked-outputs", || describe(sc));
            Some(tx)
        }
        Ok(Err(e)) => {
            let cls = format!("{:?}", e);
            let cls = cls.split('(').next().unwrap_or("?").to_string();
            ctx.violation(&format!("blind-failed-on-in-domain-scenario/{}", cls), json!({"err": format!("{:?}", e), "in": describe(sc)}));
            None
        }
        Err(p) => {
            ctx.panic_violation("Transaction::blind", &p, describe(sc));
            None
        }
    }
}

pub fn run(ctx: &mut Ctx) {
    let n = ctx.budget(2_400, 120_000);
    ctx.phase("scenarios", n, |ctx, k| {
        ctx.eval();
        let d = Dials { issuances: k % 3 != 0, big_values: k % 5 != 0, ..Dials::default() };
        let sc = gen_scenario(&mut ctx.rng, &d);
        ctx.shape(sc.shape.clone());
        if k < 8 {
            ctx.sample(&format!("scenario-{}", k), json!({"shape": sc.shape, "tx": hex_short(&serialize(&sc.tx))}));
        }
        let seed = ctx.rng.gen();
        run_blind(ctx, &sc, seed);
        ctx.count("scenarios");
    });

    // every non-empty subset of the non-fee outputs of a few base scenarios (all positions
    // of marked outputs relative to fee and unmarked ones)
    ctx.seen("exhaustive_subspaces", "C04: every non-empty subset of (up to 5) non-fee outputs marked for blinding, per base scenario");
    let n = ctx.budget(60, 1_500);
    ctx.phase("all-subsets", n, |ctx, k| {
        let base_seed: u64 = ctx.rng.gen();
        let probe = {
            let mut r = rand_chacha::ChaCha20Rng::seed_from_u64(base_seed);
            gen_scenario(&mut r, &Dials { mark_mask: Some(1), max_inputs: 3, ..Dials::default() })
        };
        let non_fee = probe.tx.output.iter().filter(|o| !o.is_fee()).count().min(5);
        for mask in 1..(1u32 << non_fee) {
            ctx.eval();
            // same scenario (same RNG stream) with a different marking
            let mut r = rand_chacha::ChaCha20Rng::seed_from_u64(base_seed);
            let sc = gen_scenario(&mut r, &Dials { mark_mask: Some(mask), max_inputs: 3, ..Dials::default() });
            ctx.shape((sc.shape.clone(), mask));
            run_blind(ctx, &sc, base_seed ^ mask as u64);
            ctx.count("subset-markings");
        }
        let _ = k;
    });

    // the lower-level constructors assembled by hand, in the same way
    let n = ctx.budget(800, 40_000);
    ctx.phase("manual-constructors", n, |ctx, k| {
        ctx.eval();
        let sc = gen_scenario(&mut ctx.rng, &Dials { issuances: k % 2 == 0, ..Dials::default() });
        let marked: Vec<usize> = (0..sc.tx.output.len()).filter(|i| sc.receivers[*i].is_some()).collect();
        let last = *marked.last().unwrap();
        let mut tx = sc.tx.clone();
        let mut reported: Vec<Option<(elements::confidential::AssetBlindingFactor, elements::confidential::ValueBlindingFactor, Option<zkp::SecretKey>)>> = vec![None; tx.output.len()];
        let mut out_secrets: Vec<TxOutSecrets> = Vec::new();
        let mut brng = rand_chacha::ChaCha20Rng::seed_from_u64(ctx.rng.gen());
        let use_explicit_variant = k % 4 == 1;
        let res = guard(|| -> Result<(), String> {
            for i in 0..tx.output.len() {
                let (asset, value) = sc.orig[i];
                if sc.receivers[i].is_none() {
                    out_secrets.push(TxOutSecrets::new(asset, elements::confidential::AssetBlindingFactor::zero(), value, elements::confidential::ValueBlindingFactor::zero()));
                    continue;
                }
                if i == last {
                    continue;
                }
                let pk = tx.output[i].nonce.commitment().unwrap();
                let (o, abf, vbf, esk) = if use_explicit_variant {
                    // with_txout_secrets: caller chooses every secret
                    let abf = elements::confidential::AssetBlindingFactor::new(&mut brng);
                    let vbf = elements::confidential::ValueBlindingFactor::new(&mut brng);
                    let esk = gen::secret_key(&mut brng);
                    let o = with_secp(|s| TxOut::with_txout_secrets(&mut brng, s, tx.output[i].script_pubkey.clone(), pk, esk, TxOutSecrets::new(asset, abf, value, vbf), &sc.blind_secrets)).map_err(|e| format!("{:?}", e))?;
                    (o, abf, vbf, esk)
                } else {
                    let addr = Address::from_script(&tx.output[i].script_pubkey, Some(pk), &AddressParams::ELEMENTS).ok_or("no address")?;
                    with_secp(|s| TxOut::new_not_last_confidential(&mut brng, s, value, &addr, asset, &sc.blind_secrets)).map_err(|e| format!("{:?}", e))?
                };
                out_secrets.push(TxOutSecrets::new(asset, abf, value, vbf));
                reported[i] = Some((abf, vbf, Some(esk)));
                tx.output[i] = o;
            }
            let (asset, value) = sc.orig[last];
            let pk = tx.output[last].nonce.commitment().unwrap();
            let refs: Vec<&TxOutSecrets> = out_secrets.iter().collect();
            let (o, abf, vbf, esk) = if use_explicit_variant {
                let abf = elements::confidential::AssetBlindingFactor::new(&mut brng);
                let esk = gen::secret_key(&mut brng);
                let (o, vbf) = with_secp(|s| TxOut::with_secrets_last(&mut brng, s, value, tx.output[last].script_pubkey.clone(), pk, asset, esk, abf, &sc.blind_secrets, &refs)).map_err(|e| format!("{:?}", e))?;
                (o, abf, vbf, esk)
            } else {
                with_secp(|s| TxOut::new_last_confidential(&mut brng, s, value, asset, tx.output[last].script_pubkey.clone(), pk, &sc.blind_secrets, &refs)).map_err(|e| format!("{:?}", e))?
            };
            reported[last] = Some((abf, vbf, Some(esk)));
            tx.output[last] = o;
            Ok(())
        });
        match res {
            Ok(Ok(())) => {
                let get = |i: usize| reported[i];
                check_blinded(ctx, &sc, &tx, &get, if use_explicit_variant { "with_txout_secrets+with_secrets_last" } else { "new_not_last+new_last_confidential" });
            }
            Ok(Err(e)) => ctx.violation("manual-blinding-constructor-failed", json!({"err": e, "in": describe(&sc)})),
            Err(p) => ctx.panic_violation("TxOut confidential constructors", &p, describe(&sc)),
        }
        ctx.shape(("manual", sc.shape.clone(), use_explicit_variant));
    });
}
