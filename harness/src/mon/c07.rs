//! C07 — PSET serialization round-trips and re-serialization is a fixpoint.
use crate::gen::pset::{self as gp, P};
use crate::gen::{self, Rg};
use crate::iofault::ShortWriter;
use crate::mutate;
use crate::refmodel::psetraw::{self, RawPset};
use crate::rt::{guard, hex_short, Ctx};
use elements::encode::{deserialize, serialize, Encodable};
use elements::pset::elip100::{AssetMetadata, TokenMetadata};
use elements::pset::raw;
use elements::pset::PartiallySignedTransaction as Pset;
use rand::Rng;
use serde_json::json;
use std::str::FromStr;

fn err_class(e: &elements::encode::Error) -> String {
    let s = format!("{:?}", e);
    let s = s.replace("PsetError(", "Pset:");
    s.split(|c| c == '(' || c == ' ' || c == '{').next().unwrap_or("?").to_string()
}

/// decode -> encode -> decode -> encode fixpoint for an accepted byte string
/// standard base64 with padding (own encoder: the text decoder is fed bytes the library never produced)
pub fn base64(b: &[u8]) -> String {
    const T: &[u8; 64] = b"ABCDEFGHIJKLMNOPQRSTUVWXYZabcdefghijklmnopqrstuvwxyz0123456789+/";
    let mut out = String::with_capacity((b.len() + 2) / 3 * 4);
    for c in b.chunks(3) {
        let n = (c[0] as u32) << 16 | (*c.get(1).unwrap_or(&0) as u32) << 8 | *c.get(2).unwrap_or(&0) as u32;
        out.push(T[(n >> 18) as usize & 63] as char);
        out.push(T[(n >> 12) as usize & 63] as char);
        out.push(if c.len() > 1 { T[(n >> 6) as usize & 63] as char } else { '=' });
        out.push(if c.len() > 2 { T[n as usize & 63] as char } else { '=' });
    }
    out
}

/// the text decoder must agree with the byte decoder on every byte string: same verdict, same value
fn check_text_decoder_agrees(ctx: &mut Ctx, b: &[u8], bytes_verdict: Option<&Pset>, origin: &str) {
    use std::str::FromStr;
    let text = base64(b);
    match guard(|| Pset::from_str(&text)) {
        Ok(Ok(pt)) => match bytes_verdict {
            Some(pb) => {
                ctx.check(pt == *pb, &format!("text-decoder-value-differs-from-byte-decoder/{}", origin), || json!({"bytes": hex_short(b)}));
            }
            None => ctx.violation(&format!("text-decoder-accepts-what-byte-decoder-rejects/{}", origin), json!({"bytes": hex_short(b), "reencoded_len": serialize(&pt).len(), "input_len": b.len()})),
        },
        Ok(Err(_)) => {
            if bytes_verdict.is_some() {
                ctx.violation(&format!("text-decoder-rejects-what-byte-decoder-accepts/{}", origin), json!({"bytes": hex_short(b)}));
            }
        }
        Err(pn) => ctx.panic_violation("Pset::from_str", &pn, json!({"bytes": hex_short(b), "origin": origin})),
    }
    ctx.count("text-vs-byte-decoder-comparisons");
}

pub fn check_accepted(ctx: &mut Ctx, b: &[u8], origin: &str) -> Option<Pset> {
    ctx.eval();
    let first = guard(|| deserialize::<Pset>(b));
    if let Ok(r) = &first {
        check_text_decoder_agrees(ctx, b, r.as_ref().ok(), origin);
    }
    let p = match first {
        Ok(Ok(p)) => p,
        Ok(Err(e)) => {
            ctx.count(&format!("rejected/{}", origin));
            ctx.seen("rejection_classes", &format!("{} -> {}", origin, err_class(&e)));
            return None;
        }
        Err(pn) => {
            ctx.panic_violation("deserialize::<Pset>", &pn, json!({"bytes": hex_short(b), "origin": origin}));
            return None;
        }
    };
    ctx.count(&format!("accepted/{}", origin));
    let c = serialize(&p);
    match guard(|| deserialize::<Pset>(&c)) {
        Ok(Ok(p2)) => {
            ctx.check(p2 == p, &format!("decode(encode(decode(b)))!=decode(b)/{}", origin), || json!({"input": hex_short(b), "canonical": hex_short(&c)}));
            let c2 = serialize(&p2);
            ctx.check(c2 == c, &format!("canonical-encoding-not-a-fixpoint/{}", origin), || {
                let first = c.iter().zip(c2.iter()).position(|(x, y)| x != y).unwrap_or(c.len().min(c2.len()));
                json!({"input": hex_short(b), "first": hex_short(&c), "second": hex_short(&c2), "first_difference_at": first})
            });
        }
        Ok(Err(e)) => ctx.violation(&format!("canonical-encoding-rejected/{}/{}", origin, err_class(&e)), json!({"input": hex_short(b), "canonical": hex_short(&c), "err": format!("{:?}", e)})),
        Err(pn) => ctx.panic_violation("deserialize::<Pset>", &pn, json!({"bytes": hex_short(&c)})),
    }
    ctx.shape(("accepted", origin.to_string(), p.n_inputs().min(4), p.n_outputs().min(4)));
    Some(p)
}

/// a well-formed in-memory PSET: bytes and base64 round trips
pub fn check_value(ctx: &mut Ctx, p: &Pset, what: &str) {
    ctx.eval();
    let b = match guard(|| serialize(p)) {
        Ok(b) => b,
        Err(pn) => {
            ctx.panic_violation("serialize::<Pset>", &pn, json!({"pset": format!("{:?}", p).chars().take(800).collect::<String>()}));
            return;
        }
    };
    // which field class breaks, for the signature
    let diff_class = |a: &Pset, b: &Pset| -> String {
        if a.global != b.global {
            return "global".into();
        }
        for (x, y) in a.inputs().iter().zip(b.inputs().iter()) {
            if x != y {
                let (sx, sy) = (gp::input_shape(x), gp::input_shape(y));
                return if sx != sy { format!("input/presence-bit{}", (sx ^ sy).trailing_zeros()) } else { "input/value".into() };
            }
        }
        for (x, y) in a.outputs().iter().zip(b.outputs().iter()) {
            if x != y {
                let (sx, sy) = (gp::output_shape(x), gp::output_shape(y));
                return if sx != sy { format!("output/presence-bit{}", (sx ^ sy).trailing_zeros()) } else { "output/value".into() };
            }
        }
        "counts".into()
    };
    match guard(|| deserialize::<Pset>(&b)) {
        Ok(Ok(p2)) => {
            if p2 != *p {
                let cls = diff_class(p, &p2);
                ctx.violation(&format!("roundtrip-value-differs/{}/{}", what, cls), json!({"bytes": hex_short(&b), "class": cls}));
            }
            let b2 = serialize(&p2);
            if b2 != b {
                let first = b.iter().zip(b2.iter()).position(|(x, y)| x != y).unwrap_or(b.len().min(b2.len()));
                let tap = p.outputs().iter().any(|o| o.tap_tree.is_some());
                ctx.violation(&format!("reserialization-not-a-fixpoint/{}{}", what, if tap { "/with-tap-tree" } else { "" }), json!({"first": hex_short(&b), "second": hex_short(&b2), "first_difference_at": first}));
            }
        }
        Ok(Err(e)) => ctx.violation(&format!("own-encoding-rejected/{}/{}", what, err_class(&e)), json!({"bytes": hex_short(&b), "err": format!("{:?}", e)})),
        Err(pn) => ctx.panic_violation("deserialize::<Pset>", &pn, json!({"bytes": hex_short(&b)})),
    }
    // base64 text form
    let text = p.to_string();
    match guard(|| Pset::from_str(&text)) {
        Ok(Ok(p3)) => {
            ctx.check(p3 == *p, &format!("base64-roundtrip-differs/{}", what), || json!({"text": text.chars().take(400).collect::<String>()}));
        }
        Ok(Err(e)) => ctx.violation(&format!("own-base64-rejected/{}", what), json!({"err": format!("{:?}", e), "text": text.chars().take(400).collect::<String>()})),
        Err(pn) => ctx.panic_violation("Pset::from_str", &pn, json!({"text": text.chars().take(400).collect::<String>()})),
    }
    // short writes must not lose data
    let mut sw = ShortWriter { written: vec![], k: 3, calls: 0 };
    match p.consensus_encode(&mut sw) {
        Ok(n) => {
            ctx.check(sw.written == b && n == b.len(), "pset-short-writes-lose-data", || json!({"written": sw.written.len(), "expected": b.len(), "reported": n}));
        }
        Err(e) => ctx.violation("pset-short-writer-error", json!({"err": format!("{:?}", e)})),
    }
}

fn shuffle<T>(r: &mut Rg, v: &mut [T]) {
    for i in (1..v.len()).rev() {
        let j = r.gen_range(0..=i);
        v.swap(i, j);
    }
}

pub fn run(ctx: &mut Ctx) {
    let n = ctx.budget(12_000, 500_000);
    ctx.phase("values", n, |ctx, k| {
        // density dial: sparse, medium, dense
        let p = match k % 4 {
            0 => P(1, 10),
            1 => P(1, 3),
            2 => P(2, 3),
            _ => P(1, 1),
        };
        let ps = gp::pset(&mut ctx.rng, p, 3, 3);
        for i in ps.inputs() {
            ctx.shape(("in", gp::input_shape(i)));
        }
        for o in ps.outputs() {
            ctx.shape(("out", gp::output_shape(o)));
        }
        if k < 8 {
            ctx.sample(&format!("pset-{}", k), json!({"hex": hex_short(&serialize(&ps)), "inputs": ps.n_inputs(), "outputs": ps.n_outputs()}));
        }
        check_value(ctx, &ps, "generated");
    });

    // tap trees of every shape up to 6 (quick) / 8 (thorough) leaves
    let shapes = super::c15::all_depth_sequences(if ctx.quick() { 6 } else { 8 });
    ctx.phase("tap-tree-shapes", shapes.len() as u64, |ctx, k| {
        let d = &shapes[k as usize];
        let mut ps = gp::pset(&mut ctx.rng, P(1, 10), 1, 0);
        let mut o = gp::output(&mut ctx.rng, P(1, 10));
        o.tap_tree = Some(gp::tap_tree_from_depths(&mut ctx.rng, d));
        ps.add_output(o);
        ctx.shape(("tree", d.clone()));
        check_value(ctx, &ps, &format!("tap-tree-{}-leaves", d.len().min(3)));
    });

    // ELIP-100 / ELIP-102 accessors survive a round trip
    let n = ctx.budget(1_500, 50_000);
    ctx.phase("elip-accessors", n, |ctx, _k| {
        ctx.eval();
        let mut ps = gp::pset(&mut ctx.rng, P(1, 4), 2, 2);
        if ps.n_inputs() == 0 {
            ps.add_input(gp::input(&mut ctx.rng, P(1, 10)));
        }
        if ps.n_outputs() == 0 {
            ps.add_output(gp::output(&mut ctx.rng, P(1, 10)));
        }
        let asset = gen::asset_id(&mut ctx.rng);
        let token = gen::asset_id(&mut ctx.rng);
        let contract: String = (0..ctx.rng.gen_range(0..300)).map(|_| *gen::pick(&mut ctx.rng, b"{}\":, abcdefXYZ0123456789") as char).collect();
        let prevout = elements::OutPoint { txid: elements::Txid::from_byte_array(gen::arr32(&mut ctx.rng)), vout: ctx.rng.gen() };
        let am = AssetMetadata::new(contract.clone(), prevout);
        let tm = TokenMetadata::new(asset, ctx.rng.gen());
        ps.add_asset_metadata(asset, &am);
        ps.add_token_metadata(token, &tm);
        let abf_in = elements::confidential::AssetBlindingFactor::new(&mut ctx.rng);
        let abf_out = elements::confidential::AssetBlindingFactor::new(&mut ctx.rng);
        ps.inputs_mut()[0].set_abf(abf_in);
        ps.outputs_mut()[0].set_abf(abf_out);
        check_value(ctx, &ps, "elip");
        let b = serialize(&ps);
        if let Ok(back) = deserialize::<Pset>(&b) {
            let ok_am = matches!(back.get_asset_metadata(asset), Some(Ok(ref x)) if *x == am);
            let ok_tm = matches!(back.get_token_metadata(token), Some(Ok(ref x)) if *x == tm);
            ctx.check(ok_am, "elip100-asset-metadata-get!=set-after-roundtrip", || json!({"contract": contract}));
            ctx.check(ok_tm, "elip100-token-metadata-get!=set-after-roundtrip", || json!({}));
            ctx.check(matches!(back.inputs()[0].get_abf(), Some(Ok(x)) if x == abf_in), "elip102-input-abf-get!=set-after-roundtrip", || json!({}));
            ctx.check(matches!(back.outputs()[0].get_abf(), Some(Ok(x)) if x == abf_out), "elip102-output-abf-get!=set-after-roundtrip", || json!({}));
            ctx.check(back.get_asset_metadata(token).is_none(), "elip100-metadata-for-wrong-asset", || json!({}));
        }
        ctx.shape(("elip", contract.len() / 20));
    });

    // accepted byte strings: pair-level and generic mutations of valid encodings
    let n = ctx.budget(12_000, 500_000);
    ctx.phase("byte-mutations", n, |ctx, k| {
        let ps = gp::pset(&mut ctx.rng, if k % 2 == 0 { P(1, 3) } else { P(2, 3) }, 2, 2);
        let b = serialize(&ps);
        let Ok(raw) = psetraw::parse(&b) else {
            ctx.violation("reference-framing-parser-rejects-library-encoding", json!({"bytes": hex_short(&b)}));
            return;
        };
        ctx.check(psetraw::write(&raw) == b, "reference-framing-writer-differs", || json!({"bytes": hex_short(&b)}));
        ctx.check(raw.maps.len() == 1 + ps.n_inputs() + ps.n_outputs(), "map-count!=1+inputs+outputs", || json!({"maps": raw.maps.len()}));
        // 1. pairs shuffled inside every map: accepted, same PSET up to the order of the scalar list
        {
            let mut m = raw.clone();
            for map in m.maps.iter_mut() {
                shuffle(&mut ctx.rng, map);
            }
            let mb = psetraw::write(&m);
            match check_accepted(ctx, &mb, "pairs-shuffled") {
                Some(mut q) => {
                    let mut want = ps.clone();
                    q.global.scalars.sort();
                    want.global.scalars.sort();
                    ctx.check(q == want, "key-order-changes-decoded-pset", || json!({"original": hex_short(&b), "shuffled": hex_short(&mb)}));
                }
                None => ctx.violation("reordered-pairs-rejected", json!({"original": hex_short(&b), "shuffled": hex_short(&mb)})),
            }
        }
        // 2. a duplicated pair anywhere: rejected
        {
            let mi = ctx.rng.gen_range(0..raw.maps.len());
            if !raw.maps[mi].is_empty() {
                let mut m = raw.clone();
                let pi = ctx.rng.gen_range(0..m.maps[mi].len());
                let pair = m.maps[mi][pi].clone();
                let at = ctx.rng.gen_range(0..=m.maps[mi].len());
                let mut dup = pair.clone();
                if ctx.rng.gen_range(0..2) == 0 && !dup.1.is_empty() {
                    // same key, different value
                    dup.1[0] ^= 1;
                }
                m.maps[mi].insert(at, dup);
                let mb = psetraw::write(&m);
                let kind = if mi == 0 { "global" } else if mi <= ps.n_inputs() { "input" } else { "output" };
                if check_accepted(ctx, &mb, "pair-duplicated").is_some() {
                    // proprietary keys: tell the Elements subtypes apart (type, len("pset"), "pset", subtype)
                    let sub = if pair.0[0] == 0xfc && pair.0.len() >= 7 && &pair.0[1..6] == b"\x04pset" {
                        format!("/pset-subtype{:#04x}", pair.0[6])
                    } else if pair.0[0] == 0xfc {
                        "/other-prefix".to_string()
                    } else {
                        String::new()
                    };
                    ctx.violation(&format!("duplicate-key-accepted/{}/type{:#04x}{}", kind, pair.0[0], sub), json!({"bytes": hex_short(&mb), "key": hex_short(&pair.0)}));
                }
            }
        }
        // 3. a mandatory pair deleted: rejected
        {
            let mut m = raw.clone();
            let (mi, types): (usize, &[u8]) = match ctx.rng.gen_range(0..3) {
                0 => (0, &[0x02, 0x04, 0x05, 0xfb]),
                1 if ps.n_inputs() > 0 => (1 + ctx.rng.gen_range(0..ps.n_inputs()), &[0x0e, 0x0f]),
                _ if ps.n_outputs() > 0 => (1 + ps.n_inputs() + ctx.rng.gen_range(0..ps.n_outputs()), &[0x04]),
                _ => (0, &[0x02, 0xfb]),
            };
            let t = *gen::pick(&mut ctx.rng, types);
            if let Some(pos) = m.maps[mi].iter().position(|(k, _)| k.len() == 1 && k[0] == t) {
                m.maps[mi].remove(pos);
                let mb = psetraw::write(&m);
                if check_accepted(ctx, &mb, "mandatory-deleted").is_some() {
                    ctx.violation(&format!("missing-mandatory-field-accepted/map{}/type{:#04x}", if mi == 0 { "global" } else if mi <= ps.n_inputs() { "input" } else { "output" }, t), json!({"bytes": hex_short(&mb)}));
                }
            }
        }
        // 3b. output without amount / asset (explicit or commitment): rejected
        if ps.n_outputs() > 0 {
            let oi = 1 + ps.n_inputs() + ctx.rng.gen_range(0..ps.n_outputs());
            let mut m = raw.clone();
            let before = m.maps[oi].len();
            let drop_amount = ctx.rng.gen_range(0..2) == 0;
            m.maps[oi].retain(|(k, _)| {
                if drop_amount {
                    // PSET_OUT_AMOUNT = 0x03, value commitment = proprietary pset/0x01
                    !(k.len() == 1 && k[0] == 0x03) && !(k.len() >= 7 && k[0] == 0xfc && &k[1..6] == b"\x04pset" && k[6] == 0x01)
                } else {
                    // asset = pset/0x02, asset commitment = pset/0x03
                    !(k.len() >= 7 && k[0] == 0xfc && &k[1..6] == b"\x04pset" && (k[6] == 0x02 || k[6] == 0x03))
                }
            });
            if m.maps[oi].len() != before {
                let mb = psetraw::write(&m);
                if check_accepted(ctx, &mb, "output-value-or-asset-deleted").is_some() {
                    ctx.violation(&format!("output-without-{}-accepted", if drop_amount { "amount" } else { "asset" }), json!({"bytes": hex_short(&mb)}));
                }
            }
        }
        // 4. declared counts edited: rejected
        {
            let mut m = raw.clone();
            let t = if ctx.rng.gen_range(0..2) == 0 { 0x04u8 } else { 0x05 };
            if let Some(pos) = m.maps[0].iter().position(|(k, _)| k.len() == 1 && k[0] == t) {
                let cur = psetraw::declared_counts(&raw).map(|c| if t == 4 { c.0 } else { c.1 }).unwrap_or(0);
                let nv = if cur > 0 && ctx.rng.gen_range(0..2) == 0 { cur - 1 } else { cur + 1 };
                m.maps[0][pos].1 = crate::refmodel::merkle::cs(nv);
                let mb = psetraw::write(&m);
                if check_accepted(ctx, &mb, "count-edited").is_some() {
                    ctx.violation(&format!("inconsistent-count-accepted/{}", if t == 4 { "inputs" } else { "outputs" }), json!({"bytes": hex_short(&mb), "declared": nv, "actual": cur}));
                }
            }
        }
        // 5. a corrupted hash preimage: rejected
        for mi in 1..=ps.n_inputs() {
            if let Some(pos) = raw.maps[mi].iter().position(|(k, v)| k.len() > 1 && (0x0a..=0x0d).contains(&k[0]) && !v.is_empty()) {
                let mut m = raw.clone();
                m.maps[mi][pos].1[0] ^= 0x40;
                let mb = psetraw::write(&m);
                if check_accepted(ctx, &mb, "preimage-corrupted").is_some() {
                    ctx.violation(&format!("invalid-hash-preimage-accepted/type{:#04x}", raw.maps[mi][pos].0[0]), json!({"bytes": hex_short(&mb)}));
                }
                break;
            }
        }
        // 6. blinding data incomplete: drop one of the five fields of a fully blinded output
        for (oi, o) in ps.outputs().iter().enumerate() {
            if o.is_fully_blinded() {
                let mi = 1 + ps.n_inputs() + oi;
                let mut m = raw.clone();
                let sub = *gen::pick(&mut ctx.rng, &[0x04u8, 0x05, 0x07]); // rangeproof, surjection proof, ecdh key
                let before = m.maps[mi].len();
                m.maps[mi].retain(|(k, _)| !(k.len() >= 7 && k[0] == 0xfc && &k[1..6] == b"\x04pset" && k[6] == sub));
                if m.maps[mi].len() != before {
                    let mb = psetraw::write(&m);
                    if check_accepted(ctx, &mb, "blinding-data-incomplete").is_some() {
                        ctx.violation(&format!("incomplete-blinding-data-accepted/subtype{:#04x}", sub), json!({"bytes": hex_short(&mb)}));
                    }
                }
                break;
            }
        }
        // 7. blinding key without blinder index
        for (oi, o) in ps.outputs().iter().enumerate() {
            if o.blinding_key.is_some() {
                let mi = 1 + ps.n_inputs() + oi;
                let mut m = raw.clone();
                m.maps[mi].retain(|(k, _)| !(k.len() >= 7 && k[0] == 0xfc && &k[1..6] == b"\x04pset" && k[6] == 0x08));
                let mb = psetraw::write(&m);
                if check_accepted(ctx, &mb, "blinder-index-deleted").is_some() {
                    ctx.violation("blinding-key-without-blinder-index-accepted", json!({"bytes": hex_short(&mb)}));
                }
                break;
            }
        }
        // 8. generic byte mutations: whatever is accepted must canonicalise to a fixpoint
        for _ in 0..4 {
            let mut mb = b.clone();
            let label = mutate::generic(&mut ctx.rng, &mut mb);
            ctx.count(&format!("mutator/{}", label));
            check_accepted(ctx, &mb, "generic-mutation");
        }
    });

    // repository vectors
    let corpus = crate::corpus::harvest();
    ctx.phase("corpus", corpus.len() as u64, |ctx, k| {
        let b = &corpus[k as usize];
        if b.starts_with(b"pset\xff") {
            if let Some(p) = check_accepted(ctx, b, "corpus") {
                check_value(ctx, &p, "corpus");
                ctx.count("corpus-psets");
            }
        }
    });

    // raw framing types
    let n = ctx.budget(2_000, 50_000);
    ctx.phase("raw-framing", n, |ctx, _k| {
        ctx.eval();
        let pk = gp::prop_key(&mut ctx.rng);
        let enc = serialize(&pk);
        match deserialize::<raw::ProprietaryKey>(&enc) {
            Ok(back) => {
                ctx.check(back == pk, "ProprietaryKey-roundtrip-differs", || json!({"bytes": hex_short(&enc)}));
            }
            Err(e) => ctx.violation("ProprietaryKey-own-encoding-rejected", json!({"err": format!("{:?}", e)})),
        }
        let key = pk.to_key();
        ctx.check(raw::ProprietaryKey::from_key(&key).ok() == Some(pk.clone()), "ProprietaryKey-to_key-from_key-differs", || json!({}));
        let n = ctx.rng.gen_range(0..300);
        let pair = raw::Pair { key: key.clone(), value: gen::bytes(&mut ctx.rng, n) };
        let penc = serialize(&pair);
        ctx.check(matches!(deserialize::<raw::Pair>(&penc), Ok(ref p) if *p == pair), "Pair-roundtrip-differs", || json!({"bytes": hex_short(&penc)}));
        // reported length and short writes
        for (name, ok) in [
            ("ProprietaryKey", {
                let mut sw = ShortWriter { written: vec![], k: 2, calls: 0 };
                matches!(pk.consensus_encode(&mut sw), Ok(n) if n == enc.len()) && sw.written == enc
            }),
            ("Pair", {
                let mut sw = ShortWriter { written: vec![], k: 2, calls: 0 };
                matches!(pair.consensus_encode(&mut sw), Ok(n) if n == penc.len()) && sw.written == penc
            }),
        ] {
            ctx.check(ok, &format!("short-writes-lose-data/{}", name), || json!({"type": name, "encoding": hex_short(&enc)}));
        }
        ctx.shape(("raw", pk.prefix.len(), pk.key.len()));
    });
}
