//! C05 — amount verification rejects every tampered or unbalanced transaction.
use super::c04::{describe, gen_scenario};
use crate::gen::blind::{self, Dials};
use crate::gen::{self, with_secp, Rg};
use crate::refmodel::{merkle, script as rscript};
use crate::rt::{guard, hex_short, Ctx};
use elements::confidential::{Asset, AssetBlindingFactor, Nonce, Value, ValueBlindingFactor};
use elements::encode::serialize;
use elements::hashes::Hash;
use elements::secp256k1_zkp as zkp;
use elements::{AssetId, AssetIssuance, BlindAssetProofs, BlindValueProofs, OutPoint, Script, Transaction, TxIn, TxOut, Txid, VerificationError};
use rand::{Rng, SeedableRng};
use serde_json::json;

fn verr_class(e: &VerificationError) -> String {
    let s = format!("{:?}", e);
    s.split('(').next().unwrap_or("?").to_string()
}

fn verify(tx: &Transaction, spent: &[TxOut]) -> Result<Result<(), VerificationError>, crate::rt::PanicInfo> {
    guard(|| with_secp(|s| tx.verify_tx_amt_proofs(s, spent)))
}

/// `tampered` must be rejected. `expect` optionally names the exact error class required.
fn must_reject(ctx: &mut Ctx, base: &str, class: &str, tx: &Transaction, spent: &[TxOut], expect: Option<&str>, detail: &dyn Fn() -> serde_json::Value) {
    ctx.eval();
    match verify(tx, spent) {
        Ok(Ok(())) => ctx.violation(&format!("tampered-tx-verifies/{}/{}", class, base), json!({"tamper": class, "tampered_tx": hex_short(&serialize(tx)), "in": detail()})),
        Ok(Err(e)) => {
            let c = verr_class(&e);
            ctx.seen("rejection_classes", &format!("{} -> {}", class, c));
            if let Some(x) = expect {
                ctx.check(c == x, &format!("wrong-error-variant/{}/expected-{}/got-{}", class, x, c), || json!({"err": format!("{:?}", e), "in": detail()}));
            }
            ctx.count(&format!("tamper-rejected/{}", class));
        }
        Err(p) => ctx.panic_violation(&format!("verify_tx_amt_proofs[{}]", class), &p, json!({"tampered_tx": hex_short(&serialize(tx)), "in": detail()})),
    }
    ctx.shape((class.to_string(), base.to_string()));
}

fn flip_proof_bytes(r: &mut Rg, b: &[u8]) -> Vec<u8> {
    let mut m = b.to_vec();
    match r.gen_range(0..3) {
        0 => {
            let i = r.gen_range(0..m.len());
            m[i] ^= 1 << r.gen_range(0..8);
        }
        1 => {
            let n = r.gen_range(1..m.len().min(40));
            m.truncate(m.len() - n);
        }
        _ => {
            let i = r.gen_range(m.len() / 2..m.len());
            m[i] = m[i].wrapping_add(1 + r.gen_range(0..254));
        }
    }
    m
}

/// every applicable single-location tamper of a verifying transaction
pub fn tamper_all(ctx: &mut Ctx, base: &str, tx: &Transaction, spent: &[TxOut], detail: &dyn Fn() -> serde_json::Value) {
    let n_out = tx.output.len();
    for i in 0..n_out {
        let o = &tx.output[i];
        // explicit amount: +1, -1 (when it stays positive), random
        if let Value::Explicit(v) = o.value {
            for nv in [v.wrapping_add(1), v.saturating_sub(1).max(1), v ^ (1 << ctx.rng.gen_range(0..40))] {
                if nv == v || nv == 0 {
                    continue;
                }
                let mut t = tx.clone();
                t.output[i].value = Value::Explicit(nv);
                must_reject(ctx, base, "explicit-amount-changed", &t, spent, None, detail);
            }
        }
        if let Asset::Explicit(_) = o.asset {
            // (a zero-value output on an unspendable script carries no amount: changing its
            // asset is not a change the balance equation can see)
            if o.value.is_explicit() && o.value.explicit() != Some(0) {
                let mut t = tx.clone();
                t.output[i].asset = Asset::Explicit(gen::asset_id(&mut ctx.rng));
                must_reject(ctx, base, "explicit-asset-changed", &t, spent, None, detail);
            }
        }
        if o.value.is_confidential() {
            let mut t = tx.clone();
            t.output[i].value = Value::Confidential(gen::pedersen(&mut ctx.rng));
            must_reject(ctx, base, "value-commitment-replaced", &t, spent, None, detail);
            // removal of the range proof: the Missing variant for that output
            let mut t = tx.clone();
            t.output[i].witness.rangeproof = None;
            must_reject(ctx, base, "rangeproof-removed", &t, spent, Some("RangeProofMissing"), detail);
            if let Some(rp) = &o.witness.rangeproof {
                let bytes = rp.serialize();
                let m = flip_proof_bytes(&mut ctx.rng, &bytes);
                match zkp::RangeProof::from_slice(&m) {
                    Ok(p2) => {
                        let mut t = tx.clone();
                        t.output[i].witness.rangeproof = Some(Box::new(p2));
                        must_reject(ctx, base, "rangeproof-corrupted", &t, spent, None, detail);
                    }
                    Err(_) => ctx.count("tamper-rejected-at-parse/rangeproof"),
                }
            }
            // script of a blinded output
            let mut t = tx.clone();
            let mut sb = t.output[i].script_pubkey.to_bytes();
            if sb.is_empty() {
                sb.push(0x51);
            } else if ctx.rng.gen_range(0..3) == 0 {
                // the empty script (what a fee output carries)
                sb.clear();
            } else {
                let k = ctx.rng.gen_range(0..sb.len());
                sb[k] ^= 1 << ctx.rng.gen_range(0..8);
            }
            t.output[i].script_pubkey = Script::from(sb);
            must_reject(ctx, base, "blinded-output-script-changed", &t, spent, None, detail);
        }
        if o.asset.is_confidential() {
            let mut t = tx.clone();
            t.output[i].asset = Asset::Confidential(gen::generator(&mut ctx.rng));
            must_reject(ctx, base, "asset-commitment-replaced", &t, spent, None, detail);
            let mut t = tx.clone();
            t.output[i].witness.surjection_proof = None;
            must_reject(ctx, base, "surjectionproof-removed", &t, spent, Some("SurjectionProofMissing"), detail);
            if let Some(sp) = &o.witness.surjection_proof {
                let bytes = sp.serialize();
                let m = flip_proof_bytes(&mut ctx.rng, &bytes);
                match zkp::SurjectionProof::from_slice(&m) {
                    Ok(p2) => {
                        let mut t = tx.clone();
                        t.output[i].witness.surjection_proof = Some(Box::new(p2));
                        must_reject(ctx, base, "surjectionproof-corrupted", &t, spent, None, detail);
                    }
                    Err(_) => ctx.count("tamper-rejected-at-parse/surjectionproof"),
                }
            }
        }
        // exchanges with every later output
        for j in i + 1..n_out {
            let (a, b) = (&tx.output[i], &tx.output[j]);
            if a.value.is_confidential() && b.value.is_confidential() && a.value != b.value {
                let mut t = tx.clone();
                t.output[i].value = b.value;
                t.output[j].value = a.value;
                must_reject(ctx, base, "value-commitments-exchanged", &t, spent, None, detail);
            }
            if a.asset.is_confidential() && b.asset.is_confidential() && a.asset != b.asset {
                let mut t = tx.clone();
                t.output[i].asset = b.asset;
                t.output[j].asset = a.asset;
                must_reject(ctx, base, "asset-commitments-exchanged", &t, spent, None, detail);
            }
            if a.witness.rangeproof.is_some() && b.witness.rangeproof.is_some() && a.witness.rangeproof != b.witness.rangeproof {
                let mut t = tx.clone();
                t.output[i].witness.rangeproof = b.witness.rangeproof.clone();
                t.output[j].witness.rangeproof = a.witness.rangeproof.clone();
                must_reject(ctx, base, "rangeproofs-exchanged", &t, spent, None, detail);
            }
            if a.witness.surjection_proof.is_some() && b.witness.surjection_proof.is_some() && a.witness.surjection_proof != b.witness.surjection_proof {
                let mut t = tx.clone();
                t.output[i].witness.surjection_proof = b.witness.surjection_proof.clone();
                t.output[j].witness.surjection_proof = a.witness.surjection_proof.clone();
                must_reject(ctx, base, "surjectionproofs-exchanged", &t, spent, None, detail);
            }
        }
    }
    for (i, inp) in tx.input.iter().enumerate() {
        // issuance amounts
        if let Value::Explicit(v) = inp.asset_issuance.amount {
            let mut t = tx.clone();
            t.input[i].asset_issuance.amount = Value::Explicit(v + 1);
            must_reject(ctx, base, "issuance-amount-changed", &t, spent, None, detail);
            if !inp.asset_issuance.inflation_keys.is_null() {
                let mut t = tx.clone();
                t.input[i].asset_issuance.amount = Value::Null;
                must_reject(ctx, base, "issuance-amount-removed", &t, spent, None, detail);
            }
        }
        match inp.asset_issuance.inflation_keys {
            Value::Explicit(v) => {
                let mut t = tx.clone();
                t.input[i].asset_issuance.inflation_keys = Value::Explicit(v + 1);
                must_reject(ctx, base, "issuance-keys-changed", &t, spent, None, detail);
                if !inp.asset_issuance.amount.is_null() {
                    let mut t = tx.clone();
                    t.input[i].asset_issuance.inflation_keys = Value::Null;
                    must_reject(ctx, base, "issuance-keys-removed", &t, spent, None, detail);
                }
            }
            Value::Null if inp.has_issuance() && inp.asset_issuance.asset_blinding_nonce == zkp::ZERO_TWEAK => {
                let mut t = tx.clone();
                t.input[i].asset_issuance.inflation_keys = Value::Explicit(7);
                must_reject(ctx, base, "issuance-keys-added", &t, spent, None, detail);
            }
            _ => {}
        }
        // a different spent output (value always differs)
        let mut sp = spent.to_vec();
        match sp[i].value {
            Value::Explicit(v) => sp[i].value = Value::Explicit(v + 1),
            _ => sp[i].value = Value::Confidential(gen::pedersen(&mut ctx.rng)),
        }
        must_reject(ctx, base, "spent-output-value-differs", tx, &sp, None, detail);
        if let Asset::Explicit(_) = spent[i].asset {
            let mut sp = spent.to_vec();
            sp[i].asset = Asset::Explicit(gen::asset_id(&mut ctx.rng));
            must_reject(ctx, base, "spent-output-explicit-asset-differs", tx, &sp, None, detail);
        }
    }
    // wrong-length spent list: rejected as such
    let mut sp = spent.to_vec();
    sp.pop();
    must_reject(ctx, base, "spent-list-too-short", tx, &sp, Some("UtxoInputLenMismatch"), detail);
    let mut sp = spent.to_vec();
    sp.push(spent[0].clone());
    must_reject(ctx, base, "spent-list-too-long", tx, &sp, Some("UtxoInputLenMismatch"), detail);
}

// ---- explicit family

struct ExplicitCase {
    tx: Transaction,
    spent: Vec<TxOut>,
    /// reference verdict
    expect_ok: bool,
    why: String,
}

fn explicit_case(r: &mut Rg, k: u64) -> ExplicitCase {
    let n_assets = r.gen_range(1..=3);
    let assets: Vec<AssetId> = (0..n_assets).map(|_| gen::asset_id(r)).collect();
    let mut totals: Vec<(AssetId, u128)> = Vec::new();
    let add = |t: &mut Vec<(AssetId, u128)>, a: AssetId, v: u128| {
        if let Some(e) = t.iter_mut().find(|e| e.0 == a) {
            e.1 += v;
        } else {
            t.push((a, v));
        }
    };
    let n_in = r.gen_range(1..=4);
    let mut inputs = Vec::new();
    let mut spent = Vec::new();
    for i in 0..n_in {
        let a = if i < n_assets { assets[i] } else { *gen::pick(r, &assets) };
        let v: u64 = r.gen_range(1..1_000_000);
        add(&mut totals, a, v as u128);
        let mut txin = TxIn {
            previous_output: OutPoint { txid: Txid::from_byte_array(gen::arr32(r)), vout: r.gen_range(0..5) },
            // the peg-in flag changes nothing about amounts (the claimed output is passed as the spent one)
            is_pegin: gen::chance(r, 1, 4),
            script_sig: Script::new(),
            sequence: elements::Sequence(0xffff_ffff),
            asset_issuance: AssetIssuance::null(),
            witness: Default::default(),
        };
        if gen::chance(r, 1, 4) {
            let reissue = gen::chance(r, 1, 3);
            let ef = gen::arr32(r);
            let amt = r.gen_range(1..1000u64);
            let keys = if !reissue && gen::chance(r, 1, 2) { Some(r.gen_range(1..50u64)) } else { None };
            let amt_opt = if keys.is_some() && gen::chance(r, 1, 3) { None } else { Some(amt) };
            txin.asset_issuance = AssetIssuance {
                asset_blinding_nonce: if reissue { gen::tweak(r) } else { zkp::ZERO_TWEAK },
                asset_entropy: ef,
                amount: amt_opt.map(Value::Explicit).unwrap_or(Value::Null),
                inflation_keys: keys.map(Value::Explicit).unwrap_or(Value::Null),
            };
            let entropy = if reissue { ef } else { merkle::entropy(&txin.previous_output.txid.to_byte_array(), txin.previous_output.vout, &ef) };
            if let Some(a) = amt_opt {
                add(&mut totals, AssetId::from_byte_array(merkle::asset_id(&entropy)), a as u128);
            }
            if let Some(kv) = keys {
                add(&mut totals, AssetId::from_byte_array(merkle::token_id(&entropy, false)), kv as u128);
            }
        }
        inputs.push(txin);
        spent.push(TxOut { asset: Asset::Explicit(a), value: Value::Explicit(v), nonce: Nonce::Null, script_pubkey: blind::address_script(r), witness: Default::default() });
    }
    let mut outputs = Vec::new();
    for (a, tot) in &totals {
        let n = r.gen_range(1..=3usize).min(*tot as usize);
        for (pi, v) in blind::split(r, *tot as u64, n).into_iter().enumerate() {
            let fee = pi == 0 && gen::chance(r, 1, 3);
            outputs.push(if fee { TxOut::new_fee(v, *a) } else { TxOut { asset: Asset::Explicit(*a), value: Value::Explicit(v), nonce: Nonce::Null, script_pubkey: blind::any_script(r), witness: Default::default() } });
        }
    }
    let mut expect_ok = true;
    let mut why = "balanced".to_string();
    match k % 11 {
        0 | 1 => {}
        10 => {
            // nothing is paid out: every output is replaced by a zero-value output on an unspendable
            // script or a zero fee, so the output side of the tally is empty while the inputs carry value
            for o in outputs.iter_mut() {
                o.value = Value::Explicit(0);
                if !o.script_pubkey.is_empty() {
                    o.script_pubkey = Script::from(vec![0x6a]);
                }
            }
            expect_ok = false;
            why = "inputs-with-value-but-only-zero-value-outputs".into();
        }
        8 => {
            // an output that equals a spent output (same asset, same amount) appears twice
            let a = spent[0].asset.explicit().unwrap();
            let v = spent[0].value.explicit().unwrap();
            let o = TxOut { asset: Asset::Explicit(a), value: Value::Explicit(v), nonce: Nonce::Null, script_pubkey: blind::address_script(r), witness: Default::default() };
            outputs.push(o.clone());
            if gen::chance(r, 1, 2) {
                outputs.push(o);
            }
            expect_ok = false;
            why = "extra-copies-of-an-output-equal-to-an-input".into();
        }
        9 => {
            // the same spent output presented for two inputs, spent once in the outputs
            inputs.push(TxIn { previous_output: OutPoint { txid: Txid::from_byte_array(gen::arr32(r)), vout: 1 }, ..TxIn::default() });
            spent.push(spent[0].clone());
            expect_ok = false;
            why = "duplicated-input".into();
        }
        2 => {
            // off by one on one output
            let i = r.gen_range(0..outputs.len());
            let v = outputs[i].value.explicit().unwrap();
            outputs[i].value = Value::Explicit(if gen::chance(r, 1, 2) || v == 1 { v + 1 } else { v - 1 });
            expect_ok = false;
            why = "output-off-by-one".into();
        }
        3 => {
            // zero-value output on a provably unspendable script: admissible
            let unspendable = match r.gen_range(0..3) {
                0 => {
                    let mut v = vec![0x6a];
                    v.extend(gen::bytes(r, 5));
                    Script::from(v)
                }
                1 => Script::from(vec![0x6a]),
                _ => Script::from(vec![0x51; 10_001]),
            };
            // (the empty script is also "unspendable", but a zero-value explicit output on it is a
            // fee output and takes another path; it is covered by the fee cases)
            assert!(rscript::is_provably_unspendable(unspendable.as_bytes()));
            let a = *gen::pick(r, &assets);
            let pos = r.gen_range(0..=outputs.len());
            outputs.insert(pos, TxOut { asset: Asset::Explicit(a), value: Value::Explicit(0), nonce: Nonce::Null, script_pubkey: unspendable, witness: Default::default() });
            why = "zero-value-on-unspendable-script".into();
        }
        4 => {
            // zero-value output on a spendable script: not admissible
            let a = *gen::pick(r, &assets);
            let pos = r.gen_range(0..=outputs.len());
            // ordinary scripts, and scripts just at the size limit (longer ones are unspendable)
            let (script, w) = match r.gen_range(0..4) {
                0 => (Script::from(vec![0x51; 10_000]), "zero-value-on-spendable-script/len10000"),
                1 => (Script::from(vec![0x51; 9_999]), "zero-value-on-spendable-script/len9999"),
                _ => (blind::address_script(r), "zero-value-on-spendable-script"),
            };
            assert!(!rscript::is_provably_unspendable(script.as_bytes()));
            outputs.insert(pos, TxOut { asset: Asset::Explicit(a), value: Value::Explicit(0), nonce: Nonce::Null, script_pubkey: script, witness: Default::default() });
            expect_ok = false;
            why = w.into();
        }
        5 => {
            // move one unit between two assets' outputs (per-asset imbalance, total preserved)
            if totals.len() >= 2 {
                let i = outputs.iter().position(|o| o.asset.explicit() == Some(totals[0].0)).unwrap();
                let j = outputs.iter().position(|o| o.asset.explicit() == Some(totals[1].0)).unwrap();
                let vi = outputs[i].value.explicit().unwrap();
                let vj = outputs[j].value.explicit().unwrap();
                outputs[i].value = Value::Explicit(vi + 1);
                if vj > 1 {
                    outputs[j].value = Value::Explicit(vj - 1);
                } else {
                    outputs[j].value = Value::Explicit(vj + 1);
                }
                expect_ok = false;
                why = "cross-asset-imbalance".into();
            }
        }
        6 => {
            // null asset or value in an output
            let i = r.gen_range(0..outputs.len());
            if gen::chance(r, 1, 2) {
                outputs[i].asset = Asset::Null;
            } else {
                outputs[i].value = Value::Null;
            }
            expect_ok = false;
            why = "null-field".into();
        }
        _ => {
            // an extra input nobody spends into an output
            let a = *gen::pick(r, &assets);
            inputs.push(TxIn { previous_output: OutPoint { txid: Txid::from_byte_array(gen::arr32(r)), vout: 0 }, ..TxIn::default() });
            spent.push(TxOut { asset: Asset::Explicit(a), value: Value::Explicit(r.gen_range(1..100)), nonce: Nonce::Null, script_pubkey: blind::address_script(r), witness: Default::default() });
            expect_ok = false;
            why = "surplus-input".into();
        }
    }
    ExplicitCase { tx: Transaction { version: 2, lock_time: elements::LockTime::ZERO, input: inputs, output: outputs }, spent, expect_ok, why }
}

fn repo_vectors() -> Vec<(String, Transaction, Vec<TxOut>)> {
    let mut v = Vec::new();
    let root = crate::corpus::repo_root();
    // tests/data/issue_tx.hex with the spent outputs quoted in src/blind.rs (test_partially_blinded_tx)
    if let Ok(s) = std::fs::read_to_string(format!("{}/tests/data/issue_tx.hex", root)) {
        if let Some(b) = crate::rt::unhex(s.trim()) {
            if let Ok(tx) = elements::encode::deserialize::<Transaction>(&b) {
                let c = |h: &str| crate::rt::unhex(h).unwrap();
                let mut utxos = vec![TxOut::default(), TxOut::default(), TxOut::default(), TxOut::default()];
                utxos[0].asset = Asset::from_commitment(&c("0ae7a52e8e4b07e00548bab151a83e5c9ab2f9a910e10dcee930a1a152a939f99e")).unwrap();
                utxos[0].value = Value::Explicit(1);
                utxos[1].asset = Asset::from_commitment(&c("0bc226167e9ee0bb5a86c8f1478ee7d7becb7bfd4d97c26a041e628c5486a8c67a")).unwrap();
                utxos[1].value = Value::Explicit(1);
                utxos[2].asset = Asset::from_commitment(&c("0b495dbfc356993c5ac157c3d04fadf6f198a7e35a873df482ad9e4e95daa8aa7e")).unwrap();
                utxos[2].value = Value::from_commitment(&c("08e0ac2ab5f3c173d5e0652a2ec209a9a370a4e510178e73c2f22f9e132341abf4")).unwrap();
                utxos[3].asset = Asset::from_commitment(&c("0aa0956d60687982d5e73d52f8c5902478754e5f0e2e5ceff5ae53fa9681c12ae1")).unwrap();
                utxos[3].value = Value::from_commitment(&c("094b35f1e86b097ccf0b3a826570c089c724ed9cf22620937500b14acdd169e7bf")).unwrap();
                v.push(("repo:issue_tx.hex".to_string(), tx, utxos));
            }
        }
    }
    // the `verify_ct` vector: the harvested transaction that verifies against this spent output
    let c = |h: &str| crate::rt::unhex(h).unwrap();
    let txout = TxOut {
        asset: Asset::from_commitment(&c("0b37d4818b8ce1df5d3d0b88d140c6848029d6d85fb0f6ee270865caf53d0b82d4")).unwrap(),
        value: Value::from_commitment(&c("094e2cceeb8005ac14b611821c37fca757b47426afb0bb4eabe41c275d3997c046")).unwrap(),
        nonce: Nonce::Null,
        script_pubkey: Script::from(c("001475f578ed4f7a0103182a6e92942c66350dd949dc")),
        witness: Default::default(),
    };
    for b in crate::corpus::harvest() {
        if b.len() < 3000 {
            continue;
        }
        if let Ok(tx) = elements::encode::deserialize::<Transaction>(&b) {
            if tx.input.len() == 1 && with_secp(|s| tx.verify_tx_amt_proofs(s, &[txout.clone()])).is_ok() {
                v.push(("repo:verify_ct".to_string(), tx, vec![txout.clone()]));
                break;
            }
        }
    }
    v
}

pub fn run(ctx: &mut Ctx) {
    let n = ctx.budget(640, 30_000);
    ctx.phase("tampered-blinded", n, |ctx, k| {
        let sc = gen_scenario(&mut ctx.rng, &Dials { issuances: k % 3 != 0, max_inputs: 4, ..Dials::default() });
        let mut tx = sc.tx.clone();
        let mut brng = rand_chacha::ChaCha20Rng::seed_from_u64(ctx.rng.gen());
        if with_secp(|s| tx.blind(&mut brng, s, &sc.blind_secrets, false)).is_err() {
            ctx.count("base-blinding-failed(see C04)");
            return;
        }
        ctx.eval();
        match verify(&tx, &sc.spent) {
            Ok(Ok(())) => {}
            _ => {
                ctx.count("base-does-not-verify(see C04)");
                return;
            }
        }
        ctx.count("bases/generated");
        let detail = || {
            let mut v = describe(&sc);
            v["base_tx"] = json!(hex_short(&serialize(&tx)));
            v
        };
        if k < 4 {
            ctx.sample(&format!("base-{}", k), json!({"shape": sc.shape, "tx": hex_short(&serialize(&tx))}));
        }
        tamper_all(ctx, "generated", &tx, &sc.spent, &detail);
    });

    let vectors = repo_vectors();
    ctx.max("repository_vectors", vectors.len() as u64);
    ctx.phase("tampered-repository-vectors", (vectors.len() * 4) as u64, |ctx, k| {
        let (name, tx, spent) = &vectors[(k as usize) % vectors.len()];
        ctx.eval();
        match verify(tx, spent) {
            Ok(Ok(())) => {}
            other => {
                ctx.violation(&format!("repository-vector-does-not-verify/{}", name), json!({"result": format!("{:?}", other.map_err(|p| p.msg))}));
                return;
            }
        }
        ctx.count(&format!("bases/{}", name));
        let detail = || json!({"base": name});
        tamper_all(ctx, name, tx, spent, &detail);
    });

    let n = ctx.budget(8_000, 300_000);
    ctx.phase("explicit-family", n, |ctx, k| {
        ctx.eval();
        let c = explicit_case(&mut ctx.rng, k);
        let d = || json!({"tx": hex_short(&serialize(&c.tx)), "spent": c.spent.iter().map(|o| hex_short(&serialize(o))).collect::<Vec<_>>(), "why": c.why, "expected_ok": c.expect_ok});
        match verify(&c.tx, &c.spent) {
            Ok(r) => {
                let cls = r.as_ref().err().map(verr_class).unwrap_or_else(|| "Ok".into());
                ctx.check(r.is_ok() == c.expect_ok, &format!("explicit-verdict-wrong/{}/library-{}", c.why, cls), || json!({"library": format!("{:?}", r), "in": d()}));
                ctx.seen("explicit_outcomes", &format!("{} -> {}", c.why, cls));
            }
            Err(p) => ctx.panic_violation("verify_tx_amt_proofs[explicit]", &p, d()),
        }
        ctx.shape(("explicit", c.why.clone(), c.tx.input.len(), c.tx.output.len().min(6)));
        ctx.count(&format!("explicit/{}", c.why));
        if k < 8 {
            ctx.sample(&format!("explicit-{}", c.why), d());
        }
    });

    // exact-value proofs used for PSET explicit fields
    let n = ctx.budget(400, 10_000);
    ctx.phase("explicit-proofs", n, |ctx, _k| {
        let asset = gen::asset_id(&mut ctx.rng);
        let abf = AssetBlindingFactor::new(&mut ctx.rng);
        let vbf = ValueBlindingFactor::new(&mut ctx.rng);
        let value: u64 = match ctx.rng.gen_range(0..4) {
            0 => 1,
            1 => ctx.rng.gen_range(1..1000),
            2 => 1 << ctx.rng.gen_range(20..62),
            _ => ctx.rng.gen::<u64>() >> 2,
        };
        let (gen_c, comm) = with_secp(|s| {
            let g = zkp::Generator::new_blinded(s, asset.into_tag(), abf.into_inner());
            (g, zkp::PedersenCommitment::new(s, value, vbf.into_inner(), g))
        });
        let mut prng = rand_chacha::ChaCha20Rng::seed_from_u64(ctx.rng.gen());
        let vp = match guard(|| with_secp(|s| zkp::RangeProof::blind_value_proof(&mut prng, s, value, comm, gen_c, vbf))) {
            Ok(Ok(p)) => p,
            Ok(Err(e)) => {
                ctx.violation("blind_value_proof-failed", json!({"err": format!("{:?}", e), "value": value}));
                return;
            }
            Err(p) => {
                ctx.panic_violation("blind_value_proof", &p, json!({"value": value}));
                return;
            }
        };
        ctx.evals(5);
        let ok = with_secp(|s| vp.blind_value_proof_verify(s, value, gen_c, comm));
        ctx.check(ok, "blind_value_proof-does-not-verify-for-true-value", || json!({"value": value}));
        for wrong in [value + 1, value - 1] {
            if wrong == 0 {
                continue;
            }
            let bad = with_secp(|s| vp.blind_value_proof_verify(s, wrong, gen_c, comm));
            ctx.check(!bad, "blind_value_proof-verifies-for-wrong-value", || json!({"value": value, "claimed": wrong}));
        }
        let other_comm = gen::pedersen(&mut ctx.rng);
        ctx.check(!with_secp(|s| vp.blind_value_proof_verify(s, value, gen_c, other_comm)), "blind_value_proof-verifies-for-wrong-commitment", || json!({"value": value}));
        let other_gen = gen::generator(&mut ctx.rng);
        ctx.check(!with_secp(|s| vp.blind_value_proof_verify(s, value, other_gen, comm)), "blind_value_proof-verifies-for-wrong-generator", || json!({"value": value}));
        // asset proof
        let ap = match guard(|| with_secp(|s| zkp::SurjectionProof::blind_asset_proof(&mut prng, s, asset, abf))) {
            Ok(Ok(p)) => p,
            Ok(Err(e)) => {
                ctx.violation("blind_asset_proof-failed", json!({"err": format!("{:?}", e)}));
                return;
            }
            Err(p) => {
                ctx.panic_violation("blind_asset_proof", &p, json!({}));
                return;
            }
        };
        ctx.evals(3);
        ctx.check(with_secp(|s| ap.blind_asset_proof_verify(s, asset, gen_c)), "blind_asset_proof-does-not-verify-for-true-asset", || json!({}));
        let other_asset = gen::asset_id(&mut ctx.rng);
        ctx.check(!with_secp(|s| ap.blind_asset_proof_verify(s, other_asset, gen_c)), "blind_asset_proof-verifies-for-wrong-asset", || json!({}));
        ctx.check(!with_secp(|s| ap.blind_asset_proof_verify(s, asset, other_gen)), "blind_asset_proof-verifies-for-wrong-commitment", || json!({}));
        ctx.shape(("proofs", value.leading_zeros()));
    });
}
