//! C03 — signature hashes follow the Elements legacy, segwit-v0 and taproot algorithms.
use crate::gen::{self, Rg, TxDials};
use crate::refmodel::ser::{self, RTx, RTxOut};
use crate::refmodel::sighash::{self as rs, RPrevouts, SigErr, TapArgs};
use crate::rt::{guard, hex, hex_short, Ctx};
use elements::encode::serialize;
use elements::hashes::Hash;
use elements::sighash::{Annex, Prevouts, SighashCache};
use elements::taproot::{LeafVersion, TapLeafHash};
use elements::{EcdsaSighashType, SchnorrSighashType, Script, Transaction, TxOut};
use rand::Rng;
use serde_json::json;

pub const ECDSA_TYPES: [EcdsaSighashType; 6] = [
    EcdsaSighashType::All,
    EcdsaSighashType::None,
    EcdsaSighashType::Single,
    EcdsaSighashType::AllPlusAnyoneCanPay,
    EcdsaSighashType::NonePlusAnyoneCanPay,
    EcdsaSighashType::SinglePlusAnyoneCanPay,
];
pub const SCHNORR_TYPES: [SchnorrSighashType; 7] = [
    SchnorrSighashType::Default,
    SchnorrSighashType::All,
    SchnorrSighashType::None,
    SchnorrSighashType::Single,
    SchnorrSighashType::AllPlusAnyoneCanPay,
    SchnorrSighashType::NonePlusAnyoneCanPay,
    SchnorrSighashType::SinglePlusAnyoneCanPay,
];

pub fn gen_prevout(r: &mut Rg) -> TxOut {
    let (a, v) = (r.gen_range(1..3u8), r.gen_range(1..3u8));
    TxOut {
        asset: gen::asset_v(r, a),
        value: gen::value_v(r, v),
        nonce: {
            let n = r.gen_range(0..3u8);
            gen::nonce_v(r, n)
        },
        script_pubkey: {
            let n = *gen::pick(r, &[0usize, 22, 23, 25, 34, 35, 80, 253]);
            Script::from(gen::bytes(r, n))
        },
        witness: Default::default(),
    }
}

pub fn sig_tx(r: &mut Rg, k: u64) -> (Transaction, Vec<TxOut>) {
    let d = TxDials {
        max_in: 6,
        max_out: 6,
        coinbase: false,
        wit_mask: (k % 64) as u8,
        exotic_outputs: k % 3 == 0,
        ..TxDials::default()
    };
    let mut t = gen::tx(r, &d);
    if t.input.is_empty() {
        t.input.push(gen::txin(r, &d, false));
    }
    let prevouts = (0..t.input.len()).map(|_| gen_prevout(r)).collect();
    (t, prevouts)
}

fn map_err(e: &elements::sighash::Error) -> Option<SigErr> {
    use elements::sighash::Error as E;
    Some(match e {
        E::IndexOutOfInputsBounds { .. } => SigErr::IndexOutOfInputs,
        E::SingleWithoutCorrespondingOutput { .. } => SigErr::SingleWithoutOutput,
        E::PrevoutsSize => SigErr::PrevoutsSize,
        E::PrevoutIndex => SigErr::PrevoutIndex,
        E::PrevoutKind => SigErr::PrevoutKind,
        _ => return None,
    })
}

#[derive(Clone, Debug)]
pub struct TapQuery {
    pub idx: usize,
    pub ty: SchnorrSighashType,
    pub one: bool,
    pub annex: Option<Vec<u8>>,
    /// (leaf version byte, script, code separator)
    pub leaf: Option<(u8, Vec<u8>, u32)>,
    /// deliberately malformed prevouts: 0 = fine, 1 = All of wrong length, 2 = One with another index
    pub bad_prevouts: u8,
    /// ask through the convenience wrapper (`taproot_key_spend_signature_hash` /
    /// `taproot_script_spend_signature_hash`) instead of `taproot_sighash`; only without an annex
    pub wrapper: bool,
}

pub fn gen_tap_query(r: &mut Rg, nin: usize, allow_bad: bool) -> TapQuery {
    let idx = if allow_bad && gen::chance(r, 1, 12) { nin + r.gen_range(0..2) } else { r.gen_range(0..nin) };
    TapQuery {
        idx,
        ty: *gen::pick(r, &SCHNORR_TYPES),
        one: gen::chance(r, 1, 3),
        annex: if gen::chance(r, 1, 3) {
            let n = *gen::pick(r, &[1usize, 2, 33, 252, 253, 300]);
            let mut a = gen::bytes(r, n);
            a[0] = 0x50;
            Some(a)
        } else {
            None
        },
        leaf: if gen::chance(r, 1, 2) {
            let ver = *gen::pick(r, &[0xc0u8, 0xc2, 0xc4, 0xfe, 0x66, 0xc0, 0xc0]);
            let n = *gen::pick(r, &[0usize, 1, 34, 100, 252, 253, 600]);
            Some((ver, gen::bytes(r, n), *gen::pick(r, &[0xffff_ffffu32, 0, 1, 77, 0x7fff_ffff])))
        } else {
            None
        },
        bad_prevouts: if allow_bad && gen::chance(r, 1, 14) { r.gen_range(1..3) } else { 0 },
        wrapper: gen::chance(r, 1, 3),
    }
}

pub fn ref_tap(rtx: &RTx, rprev: &[RTxOut], q: &TapQuery, genesis: &[u8; 32]) -> Result<[u8; 32], SigErr> {
    let short;
    let prevouts = if q.one {
        let k = if q.bad_prevouts == 2 { q.idx + 1 } else { q.idx };
        match rprev.get(q.idx.min(rprev.len() - 1)) {
            Some(p) => RPrevouts::One(k, p),
            None => unreachable!(),
        }
    } else if q.bad_prevouts == 1 {
        short = &rprev[..rprev.len() - 1];
        RPrevouts::All(short)
    } else {
        RPrevouts::All(rprev)
    };
    let leaf = q.leaf.as_ref().map(|(v, s, pos)| (rs::tap_leaf_hash(*v, s), *pos));
    rs::taproot_digest(
        rtx,
        &TapArgs { idx: q.idx, prevouts, hash_type: q.ty as u8, annex: q.annex.as_deref(), leaf, genesis: *genesis },
    )
}

/// run a taproot query against a cache; returns Ok(digest) / Err(error class string)
pub fn lib_tap<T: std::ops::Deref<Target = Transaction>>(
    cache: &mut SighashCache<T>,
    prevs: &[TxOut],
    q: &TapQuery,
    genesis: elements::BlockHash,
) -> Result<[u8; 32], elements::sighash::Error> {
    let annex = q.annex.as_ref().map(|a| Annex::new(a).expect("annex starts with 0x50"));
    let leaf = match &q.leaf {
        Some((v, s, pos)) => {
            let ver = LeafVersion::from_u8(*v).expect("valid leaf version");
            Some((TapLeafHash::from_script(&Script::from(s.clone()), ver), *pos))
        }
        None => None,
    };
    // the two wrappers are the general entry point without an annex
    // (the script-path wrapper fixes the code-separator position at 0xffffffff)
    let via_wrapper = q.wrapper && q.annex.is_none() && q.leaf.as_ref().map_or(true, |(_, _, pos)| *pos == 0xffff_ffff);
    let script_holder = q.leaf.as_ref().map(|(_, s, _)| Script::from(s.clone()));
    let mut call = |cache: &mut SighashCache<T>, pv: &Prevouts<TxOut>| -> Result<[u8; 32], elements::sighash::Error> {
        if via_wrapper {
            match (&q.leaf, &script_holder) {
                (Some((v, _, pos)), Some(script)) => {
                    let sp = elements::sighash::ScriptPath::new(script, *pos, LeafVersion::from_u8(*v).expect("valid leaf version"));
                    cache.taproot_script_spend_signature_hash(q.idx, pv, sp, q.ty, genesis).map(|h| h.to_byte_array())
                }
                _ => cache.taproot_key_spend_signature_hash(q.idx, pv, q.ty, genesis).map(|h| h.to_byte_array()),
            }
        } else {
            cache.taproot_sighash(q.idx, pv, annex.clone(), leaf, q.ty, genesis).map(|h| h.to_byte_array())
        }
    };
    if q.one {
        let k = if q.bad_prevouts == 2 { q.idx + 1 } else { q.idx };
        let p = &prevs[q.idx.min(prevs.len() - 1)];
        call(cache, &Prevouts::One(k, p.clone()))
    } else if q.bad_prevouts == 1 {
        call(cache, &Prevouts::All(&prevs[..prevs.len() - 1]))
    } else {
        call(cache, &Prevouts::All(prevs))
    }
}

pub fn tap_query_class(q: &TapQuery) -> String {
    format!(
        "{:#04x}/{}{}{}{}",
        q.ty as u8,
        if q.one { "One" } else { "All" },
        if q.annex.is_some() { "+annex" } else { "" },
        if q.leaf.is_some() { "+script" } else { "+key" },
        match (q.bad_prevouts, q.one) {
            (1, false) => "+shortprevouts",
            (2, true) => "+wrongindex",
            _ => "",
        }
    )
}

pub fn check_taproot(ctx: &mut Ctx, cache: &mut SighashCache<&Transaction>, t: &Transaction, prevs: &[TxOut], q: &TapQuery, genesis: &[u8; 32]) {
    ctx.eval();
    let rtx = ser::rtx(t);
    let rprev: Vec<RTxOut> = prevs.iter().map(ser::rtxout).collect();
    let want = ref_tap(&rtx, &rprev, q, genesis);
    let gh = elements::BlockHash::from_byte_array(*genesis);
    let got = match guard(|| lib_tap(cache, prevs, q, gh)) {
        Ok(g) => g,
        Err(p) => {
            ctx.panic_violation("taproot_sighash", &p, json!({"tx": hex_short(&serialize(t)), "query": format!("{:?}", q)}));
            return;
        }
    };
    let cls = tap_query_class(q);
    let d = || json!({"tx": hex_short(&serialize(t)), "prevouts": prevs.iter().map(|p| hex_short(&serialize(p))).collect::<Vec<_>>(), "query": format!("{:?}", q), "genesis": hex(genesis)});
    match (&got, &want) {
        (Ok(g), Ok(w)) => {
            ctx.check(g == w, &format!("taproot-digest!=reference/{}", cls), || json!({"expected": hex(w), "observed": hex(g), "in": d()}));
            ctx.count("taproot/ok");
        }
        (Err(e), Err(w)) => {
            ctx.count("taproot/err-both");
            ctx.seen("taproot_error_classes", &format!("{:?}", w));
            if map_err(e).as_ref() != Some(w) {
                ctx.seen("taproot_error_class_differs(informational)", &format!("lib={:?} ref={:?}", map_err(e), w));
            }
        }
        (Ok(_), Err(SigErr::IndexOutOfInputs)) => {
            // an index that is not an input index is outside the property's quantifier
            // ("all input indices"); the library answers such non-ANYONECANPAY queries with
            // a digest. Recorded, not judged.
            ctx.count("taproot/out-of-domain-index-answered(informational)");
        }
        (Ok(g), Err(w)) => {
            ctx.violation(&format!("taproot-ok-where-algorithm-fails/{}/{:?}", cls, w), json!({"observed": hex(g), "reference_error": format!("{:?}", w), "in": d()}));
        }
        (Err(e), Ok(w)) => {
            let ec = format!("{:?}", e);
            let ec = ec.split(|c| c == ' ' || c == '{' || c == '(').next().unwrap_or("?").to_string();
            ctx.violation(&format!("taproot-err-where-defined/{}/{}", cls, ec), json!({"error": format!("{:?}", e), "expected": hex(w), "in": d()}));
        }
    }
    // preimage comparison gives a precise diff; same arguments through the writer API
    if let (Ok(_), true) = (&want, q.bad_prevouts == 0 && !q.one) {
        let annex = q.annex.as_ref().map(|a| Annex::new(a).unwrap());
        let leaf = q.leaf.as_ref().map(|(v, s, pos)| (TapLeafHash::from_byte_array(rs::tap_leaf_hash(*v, s)), *pos));
        let mut buf = Vec::new();
        if cache.taproot_encode_signing_data_to(&mut buf, q.idx, &Prevouts::All(prevs), annex, leaf, q.ty, gh).is_ok() {
            let leafr = q.leaf.as_ref().map(|(v, s, pos)| (rs::tap_leaf_hash(*v, s), *pos));
            let pre = rs::taproot_preimage(&rtx, &TapArgs { idx: q.idx, prevouts: RPrevouts::All(&rprev), hash_type: q.ty as u8, annex: q.annex.as_deref(), leaf: leafr, genesis: *genesis }).unwrap();
            ctx.check(buf == pre, &format!("taproot-preimage!=reference/{}", cls), || {
                let first = buf.iter().zip(pre.iter()).position(|(a, b)| a != b).unwrap_or(buf.len().min(pre.len()));
                json!({"first_difference_at": first, "library": hex_short(&buf), "reference": hex_short(&pre), "in": d()})
            });
        }
    }
    // leaf hash itself
    if let Some((v, s, _)) = &q.leaf {
        let lh = TapLeafHash::from_script(&Script::from(s.clone()), LeafVersion::from_u8(*v).unwrap()).to_byte_array();
        ctx.check(lh == rs::tap_leaf_hash(*v, s), "tapleaf-hash!=reference", || json!({"version": v, "script": hex_short(s)}));
    }
    ctx.shape(("tap", cls, t.input.len().min(4), t.output.len().min(4), q.idx.min(6)));
}

pub fn check_legacy(ctx: &mut Ctx, t: &Transaction, idx: usize, script: &Script, ty: EcdsaSighashType) {
    ctx.eval();
    let rtx = ser::rtx(t);
    let want = rs::legacy_digest(&rtx, idx, script.as_bytes(), ty.as_u32());
    let cache = SighashCache::new(t);
    let got = match guard(|| cache.legacy_sighash(idx, script, ty).to_byte_array()) {
        Ok(g) => g,
        Err(p) => {
            ctx.panic_violation("legacy_sighash", &p, json!({"tx": hex_short(&serialize(t)), "idx": idx, "type": format!("{:?}", ty)}));
            return;
        }
    };
    let single_oob = (ty.as_u32() & 0x1f) == 3 && idx >= t.output.len();
    let cls = format!("{:?}{}", ty, if single_oob { "/single-out-of-range" } else { "" });
    ctx.check(got == want, &format!("legacy-digest!=reference/{}", cls), || {
        json!({"expected": hex(&want), "observed": hex(&got), "tx": hex_short(&serialize(t)), "idx": idx, "script_code": hex_short(script.as_bytes())})
    });
    if !single_oob {
        let mut buf = Vec::new();
        if cache.encode_legacy_signing_data_to(&mut buf, idx, script, ty).is_ok() {
            if let rs::Legacy::Preimage(pre) = rs::legacy(&rtx, idx, script.as_bytes(), ty.as_u32()) {
                ctx.check(buf == pre, &format!("legacy-preimage!=reference/{:?}", ty), || {
                    let first = buf.iter().zip(pre.iter()).position(|(a, b)| a != b).unwrap_or(buf.len().min(pre.len()));
                    json!({"first_difference_at": first, "library": hex_short(&buf), "reference": hex_short(&pre)})
                });
            }
        }
    }
    ctx.count(&format!("legacy/{}", cls));
    ctx.shape(("legacy", cls, t.input.len().min(4), t.output.len().min(4), idx.min(6)));
}

pub fn check_segwit(ctx: &mut Ctx, cache: &mut SighashCache<&Transaction>, t: &Transaction, idx: usize, script: &Script, value: elements::confidential::Value, ty: EcdsaSighashType) {
    ctx.eval();
    let rtx = ser::rtx(t);
    let rv = ser::rvalue(&value);
    let want = rs::segwit_v0_digest(&rtx, idx, script.as_bytes(), &rv, ty.as_u32());
    let got = match guard(|| cache.segwitv0_sighash(idx, script, value, ty).to_byte_array()) {
        Ok(g) => g,
        Err(p) => {
            ctx.panic_violation("segwitv0_sighash", &p, json!({"tx": hex_short(&serialize(t)), "idx": idx, "type": format!("{:?}", ty)}));
            return;
        }
    };
    let cls = format!("{:?}{}", ty, if (ty.as_u32() & 0x1f) == 3 && idx >= t.output.len() { "/single-out-of-range" } else { "" });
    ctx.check(got == want, &format!("segwitv0-digest!=reference/{}", cls), || {
        json!({"expected": hex(&want), "observed": hex(&got), "tx": hex_short(&serialize(t)), "idx": idx, "script_code": hex_short(script.as_bytes()), "value": format!("{:?}", value)})
    });
    let mut buf = Vec::new();
    if cache.encode_segwitv0_signing_data_to(&mut buf, idx, script, value, ty).is_ok() {
        let pre = rs::segwit_v0_preimage(&rtx, idx, script.as_bytes(), &rv, ty.as_u32());
        ctx.check(buf == pre, &format!("segwitv0-preimage!=reference/{:?}", ty), || {
            let first = buf.iter().zip(pre.iter()).position(|(a, b)| a != b).unwrap_or(buf.len().min(pre.len()));
            json!({"first_difference_at": first, "library": hex_short(&buf), "reference": hex_short(&pre)})
        });
    }
    ctx.count(&format!("segwitv0/{}", cls));
    ctx.shape(("segwit", cls, t.input.len().min(4), t.output.len().min(4), idx.min(6)));
}

pub fn run(ctx: &mut Ctx) {
    let n = ctx.budget(12_000, 500_000);
    ctx.phase("queries", n, |ctx, k| {
        let (t, prevs) = sig_tx(&mut ctx.rng, k);
        ctx.shape(("tx", gen::tx_shape(&t)));
        if k < 16 {
            ctx.sample("signing-transaction", json!({"tx": hex_short(&serialize(&t)), "inputs": t.input.len(), "outputs": t.output.len()}));
        }
        let genesis = gen::arr32(&mut ctx.rng);
        // One cache object serves every query of this case (answers are compared with the
        // reference, so a cache that goes stale is caught here too); every 4th case uses a
        // fresh cache per query instead.
        let share = k % 4 != 0;
        let mut shared = SighashCache::new(&t);
        macro_rules! cache {
            () => {{
                if !share {
                    shared = SighashCache::new(&t);
                }
                &mut shared
            }};
        }
        // taproot queries: all seven types on valid indices plus random ones incl. failing
        // ones, in a random order, interleaved with the legacy / segwit queries
        let mut taps: Vec<TapQuery> = Vec::new();
        for ty in SCHNORR_TYPES {
            let mut q = gen_tap_query(&mut ctx.rng, t.input.len(), false);
            q.ty = ty;
            taps.push(q);
        }
        for _ in 0..6 {
            let q = gen_tap_query(&mut ctx.rng, t.input.len(), true);
            if q.bad_prevouts == 1 && prevs.len() < 2 {
                continue;
            }
            taps.push(q);
        }
        for i in (1..taps.len()).rev() {
            let j = ctx.rng.gen_range(0..=i);
            taps.swap(i, j);
        }
        let head = ctx.rng.gen_range(0..=taps.len());
        for q in &taps[..head] {
            check_taproot(ctx, cache!(), &t, &prevs, q, &genesis);
        }
        // legacy and segwit: every input index (incl. index >= #outputs), all six types
        for idx in 0..t.input.len() {
            let sc = {
                let n = *gen::pick(&mut ctx.rng, &[0usize, 25, 35, 252, 253]);
                Script::from(gen::bytes(&mut ctx.rng, n))
            };
            let ty = ECDSA_TYPES[((k as usize) + idx) % 6];
            check_legacy(ctx, &t, idx, &sc, ty);
            let ty2 = ECDSA_TYPES[((k as usize) / 6 + idx) % 6];
            let v = {
                let vv = ctx.rng.gen_range(0..3u8);
                gen::value_v(&mut ctx.rng, vv)
            };
            check_segwit(ctx, cache!(), &t, idx, &sc, v, ty2);
        }
        // all six types on one index each
        let idx = ctx.rng.gen_range(0..t.input.len());
        for ty in ECDSA_TYPES {
            let sc = Script::from(gen::bytes(&mut ctx.rng, 25));
            check_legacy(ctx, &t, idx, &sc, ty);
            check_segwit(ctx, cache!(), &t, idx, &sc, prevs[idx].value, ty);
        }
        for q in &taps[head..] {
            check_taproot(ctx, cache!(), &t, &prevs, q, &genesis);
        }
        // convenience wrappers agree with the general entry point
        {
            let q = gen_tap_query(&mut ctx.rng, t.input.len(), false);
            let gh = elements::BlockHash::from_byte_array(genesis);
            let mut c = SighashCache::new(&t);
            let key = c.taproot_key_spend_signature_hash(q.idx, &Prevouts::All(&prevs), q.ty, gh).map(|h| h.to_byte_array()).ok();
            let qk = TapQuery { annex: None, leaf: None, one: false, bad_prevouts: 0, ..q.clone() };
            let want = ref_tap(&ser::rtx(&t), &prevs.iter().map(ser::rtxout).collect::<Vec<_>>(), &qk, &genesis).ok();
            ctx.check(key == want, "taproot_key_spend_signature_hash!=reference", || json!({"tx": hex_short(&serialize(&t)), "query": format!("{:?}", qk)}));
            let script = Script::from(gen::bytes(&mut ctx.rng, 40));
            let sp = elements::sighash::ScriptPath::with_defaults(&script);
            let mut c = SighashCache::new(&t);
            let scr = c.taproot_script_spend_signature_hash(q.idx, &Prevouts::All(&prevs), sp, q.ty, gh).map(|h| h.to_byte_array()).ok();
            let qs = TapQuery { annex: None, leaf: Some((0xc4, script.to_bytes(), 0xffff_ffff)), one: false, bad_prevouts: 0, ..q.clone() };
            let want = ref_tap(&ser::rtx(&t), &prevs.iter().map(ser::rtxout).collect::<Vec<_>>(), &qs, &genesis).ok();
            ctx.check(scr == want, "taproot_script_spend_signature_hash!=reference", || json!({"tx": hex_short(&serialize(&t)), "query": format!("{:?}", qs)}));
            ctx.evals(2);
        }
        // commit / ignore observation: single-field edits; the library's digest must change
        // exactly when the reference digest changes
        {
            let idx = ctx.rng.gen_range(0..t.input.len());
            let ty = *gen::pick(&mut ctx.rng, &ECDSA_TYPES);
            let sty = *gen::pick(&mut ctx.rng, &SCHNORR_TYPES);
            let sc = Script::from(gen::bytes(&mut ctx.rng, 25));
            let q = TapQuery { idx, ty: sty, one: false, annex: None, leaf: None, bad_prevouts: 0, wrapper: false };
            let gh = elements::BlockHash::from_byte_array(genesis);
            let base_l = SighashCache::new(&t).legacy_sighash(idx, &sc, ty).to_byte_array();
            let base_s = SighashCache::new(&t).segwitv0_sighash(idx, &sc, prevs[idx].value, ty).to_byte_array();
            let base_t = lib_tap(&mut SighashCache::new(&t), &prevs, &q, gh).ok();
            let rt0 = ser::rtx(&t);
            let rp: Vec<RTxOut> = prevs.iter().map(ser::rtxout).collect();
            let rv = ser::rvalue(&prevs[idx].value);
            let ref_l = rs::legacy_digest(&rt0, idx, sc.as_bytes(), ty.as_u32());
            let ref_s = rs::segwit_v0_digest(&rt0, idx, sc.as_bytes(), &rv, ty.as_u32());
            let ref_t = ref_tap(&rt0, &rp, &q, &genesis).ok();
            for _ in 0..5 {
                let mut t2 = t.clone();
                let Some(label) = super::c02::edit_tx(&mut ctx.rng, &mut t2) else { continue };
                if t2.input.len() != t.input.len() || idx >= t2.input.len() {
                    continue;
                }
                ctx.eval();
                let r2 = ser::rtx(&t2);
                let l2 = SighashCache::new(&t2).legacy_sighash(idx, &sc, ty).to_byte_array();
                let s2 = SighashCache::new(&t2).segwitv0_sighash(idx, &sc, prevs[idx].value, ty).to_byte_array();
                let t2d = lib_tap(&mut SighashCache::new(&t2), &prevs, &q, gh).ok();
                let exp_l = rs::legacy_digest(&r2, idx, sc.as_bytes(), ty.as_u32()) != ref_l;
                let exp_s = rs::segwit_v0_digest(&r2, idx, sc.as_bytes(), &rv, ty.as_u32()) != ref_s;
                let exp_t = ref_tap(&r2, &rp, &q, &genesis).ok() != ref_t;
                let dd = || json!({"edit": label, "before": hex_short(&serialize(&t)), "after": hex_short(&serialize(&t2)), "idx": idx});
                ctx.check((l2 != base_l) == exp_l, &format!("legacy-commitment-mismatch/{:?}/{}/expected-{}", ty, label, if exp_l { "change" } else { "same" }), dd);
                ctx.check((s2 != base_s) == exp_s, &format!("segwitv0-commitment-mismatch/{:?}/{}/expected-{}", ty, label, if exp_s { "change" } else { "same" }), dd);
                ctx.check((t2d != base_t) == exp_t, &format!("taproot-commitment-mismatch/{:#04x}/{}/expected-{}", sty as u8, label, if exp_t { "change" } else { "same" }), dd);
                ctx.count(&format!("edit-observed/{}/legacy:{}/segwit:{}/taproot:{}", label, exp_l as u8, exp_s as u8, exp_t as u8));
            }
        }
    });
}
