//! C08 — PSET and transaction views agree; unique id and lock time follow BIP370.
use crate::gen::pset::{self as gp, P};
use crate::gen::{self, Rg, TxDials};
use crate::refmodel::psetx;
use crate::refmodel::ser;
use crate::rt::{guard, hex, hex_short, Ctx};
use elements::confidential as conf;
use elements::encode::serialize;
use elements::hashes::Hash;
use elements::locktime::{Height, Time};
use elements::pset::{Input, PartiallySignedTransaction as Pset};
use elements::{LockTime, OutPoint, Transaction, Txid};
use rand::Rng;
use serde_json::json;

fn tx_class(t: &Transaction) -> String {
    let mut v = Vec::new();
    if t.input.iter().any(|i| i.is_coinbase() || i.previous_output.vout == 0xffff_ffff) {
        v.push("coinbase-index");
    }
    if t.input.iter().any(|i| i.is_pegin) {
        v.push("pegin");
    }
    if t.input.iter().any(|i| i.has_issuance()) {
        v.push("issuance");
    }
    if t.output.iter().any(|o| o.nonce.is_confidential() && !o.is_partially_blinded()) {
        v.push("explicit-output-with-blinding-nonce");
    }
    if v.is_empty() {
        v.push("plain");
    }
    v.join("+")
}

/// first differing field between two transactions, for stable signatures
fn first_diff(a: &Transaction, b: &Transaction) -> String {
    if a.version != b.version {
        return "version".into();
    }
    if a.lock_time != b.lock_time {
        return "lock_time".into();
    }
    if a.input.len() != b.input.len() {
        return "input-count".into();
    }
    if a.output.len() != b.output.len() {
        return "output-count".into();
    }
    for (x, y) in a.input.iter().zip(b.input.iter()) {
        if x.previous_output != y.previous_output {
            return "input.previous_output".into();
        }
        if x.is_pegin != y.is_pegin {
            return "input.is_pegin".into();
        }
        if x.script_sig != y.script_sig {
            return "input.script_sig".into();
        }
        if x.sequence != y.sequence {
            return "input.sequence".into();
        }
        if x.asset_issuance != y.asset_issuance {
            return "input.asset_issuance".into();
        }
        if x.witness.amount_rangeproof != y.witness.amount_rangeproof {
            return "input.witness.amount_rangeproof".into();
        }
        if x.witness.inflation_keys_rangeproof != y.witness.inflation_keys_rangeproof {
            return "input.witness.inflation_keys_rangeproof".into();
        }
        if x.witness.script_witness != y.witness.script_witness {
            return "input.witness.script_witness".into();
        }
        if x.witness.pegin_witness != y.witness.pegin_witness {
            return "input.witness.pegin_witness".into();
        }
    }
    for (x, y) in a.output.iter().zip(b.output.iter()) {
        if x.asset != y.asset {
            return "output.asset".into();
        }
        if x.value != y.value {
            return "output.value".into();
        }
        if x.nonce != y.nonce {
            return "output.nonce".into();
        }
        if x.script_pubkey != y.script_pubkey {
            return "output.script_pubkey".into();
        }
        if x.witness != y.witness {
            return "output.witness".into();
        }
    }
    "none".into()
}

/// an extractable PSET (every output has amount and asset)
pub fn extractable_pset(r: &mut Rg, p: P) -> Pset {
    gp::pset(r, p, 3, 3)
}

#[derive(Clone, Debug, PartialEq, Eq, Hash)]
pub enum Update {
    Sequence,
    PartialSig,
    TapKeySig,
    TapScriptSig,
    FinalScriptSig,
    FinalScriptWitness,
    RedeemScript,
    WitnessScript,
    Bip32,
    TapKeyOrigin,
    SighashType,
    InputExplicitAmount,
    OutputExplicitProofs,
    Proprietary,
    Unknown,
    OutputBip32,
    TapInternalKey,
    Preimage,
    Scalars,
    GlobalXpub,
    OutputScripts,
    OutputTapInternalKey,
    UnknownInMap,
    /// may change the unique id (callers that need id-preserving edits filter on the id)
    RequiredLocktime,
    OutputBlinderIndex,
    OutputBlindingKey,
}

pub fn apply_update(r: &mut Rg, p: &mut Pset, u: &Update) -> bool {
    let (ni, no) = (p.n_inputs(), p.n_outputs());
    let ii = if ni > 0 { r.gen_range(0..ni) } else { 0 };
    let oi = if no > 0 { r.gen_range(0..no) } else { 0 };
    apply_update_at(r, p, u, ii, oi)
}

pub fn apply_update_at(r: &mut Rg, p: &mut Pset, u: &Update, ii: usize, oi: usize) -> bool {
    let ni = p.n_inputs();
    let no = p.n_outputs();
    match u {
        Update::OutputExplicitProofs | Update::OutputBip32 | Update::OutputScripts | Update::OutputTapInternalKey | Update::OutputBlinderIndex | Update::OutputBlindingKey => {
            if no == 0 {
                return false;
            }
        }
        Update::Proprietary | Update::Unknown | Update::Scalars | Update::GlobalXpub | Update::UnknownInMap => {}
        _ => {
            if ni == 0 {
                return false;
            }
        }
    }
    match u {
        Update::Sequence => p.inputs_mut()[ii].sequence = Some(elements::Sequence(r.gen())),
        Update::PartialSig => {
            let k = gp::btc_pubkey(r);
            p.inputs_mut()[ii].partial_sigs.insert(k, gen::bytes(r, 71));
        }
        Update::TapKeySig => p.inputs_mut()[ii].tap_key_sig = Some(gp::schnorr_sig(r)),
        Update::TapScriptSig => {
            let k = (gp::xonly(r), elements::taproot::TapLeafHash::from_byte_array(gen::arr32(r)));
            p.inputs_mut()[ii].tap_script_sigs.insert(k, gp::schnorr_sig(r));
        }
        Update::FinalScriptSig => p.inputs_mut()[ii].final_script_sig = Some(elements::Script::from(gen::bytes(r, 20))),
        Update::FinalScriptWitness => {
            // now and then present but empty (what from_tx leaves for an unsigned input)
            p.inputs_mut()[ii].final_script_witness = Some(if r.gen_range(0..4) == 0 { vec![] } else { vec![gen::bytes(r, 72), gen::bytes(r, 33)] })
        }
        Update::RedeemScript => p.inputs_mut()[ii].redeem_script = Some(gp::small_script(r)),
        Update::WitnessScript => p.inputs_mut()[ii].witness_script = Some(gp::small_script(r)),
        Update::Bip32 => {
            let k = gp::btc_pubkey(r);
            p.inputs_mut()[ii].bip32_derivation.insert(k, gp::key_source(r));
        }
        Update::TapKeyOrigin => {
            let k = gp::xonly(r);
            p.inputs_mut()[ii].tap_key_origins.insert(k, (vec![], gp::key_source(r)));
        }
        Update::SighashType => p.inputs_mut()[ii].sighash_type = Some(elements::pset::PsbtSighashType::from_u32(r.gen_range(0..4))),
        Update::InputExplicitAmount => {
            p.inputs_mut()[ii].amount = Some(r.gen());
            p.inputs_mut()[ii].asset = Some(gen::asset_id(r));
            p.inputs_mut()[ii].blind_value_proof = Some(gen::rangeproof(r, false));
            p.inputs_mut()[ii].blind_asset_proof = Some(gen::surjectionproof(r));
        }
        Update::OutputExplicitProofs => {
            // only where commitments decide what is extracted
            let o = &mut p.outputs_mut()[oi];
            if o.amount_comm.is_none() || o.asset_comm.is_none() {
                return false;
            }
            o.amount = Some(r.gen());
            o.asset = Some(gen::asset_id(r));
            o.blind_value_proof = Some(gen::rangeproof(r, false));
            o.blind_asset_proof = Some(gen::surjectionproof(r));
        }
        Update::Proprietary => {
            let (k, v) = (gp::prop_key(r), gen::bytes(r, 5));
            match r.gen_range(0..3) {
                0 => {
                    p.global.proprietary.insert(k, v);
                }
                1 if ni > 0 => {
                    p.inputs_mut()[ii].proprietary.insert(k, v);
                }
                _ if no > 0 => {
                    p.outputs_mut()[oi].proprietary.insert(k, v);
                }
                _ => {
                    p.global.proprietary.insert(k, v);
                }
            }
        }
        Update::Unknown => {
            let (k, v) = (gp::unknown_key(r), gen::bytes(r, 5));
            p.global.unknown.insert(k, v);
        }
        Update::OutputBip32 => {
            let k = gp::btc_pubkey(r);
            p.outputs_mut()[oi].bip32_derivation.insert(k, gp::key_source(r));
        }
        Update::TapInternalKey => {
            p.inputs_mut()[ii].tap_internal_key = Some(gp::xonly(r));
            p.inputs_mut()[ii].tap_merkle_root = Some(elements::taproot::TapNodeHash::from_byte_array(gen::arr32(r)));
        }
        Update::Preimage => {
            let pre = gen::bytes(r, 12);
            match r.gen_range(0..4) {
                0 => {
                    p.inputs_mut()[ii].sha256_preimages.insert(elements::hashes::sha256::Hash::hash(&pre), pre);
                }
                1 => {
                    p.inputs_mut()[ii].ripemd160_preimages.insert(elements::hashes::ripemd160::Hash::hash(&pre), pre);
                }
                2 => {
                    p.inputs_mut()[ii].hash160_preimages.insert(elements::hashes::hash160::Hash::hash(&pre), pre);
                }
                _ => {
                    p.inputs_mut()[ii].hash256_preimages.insert(elements::hashes::sha256d::Hash::hash(&pre), pre);
                }
            }
        }
        Update::Scalars => {
            // one to three blinding scalars, in the order they were produced (not sorted)
            for _ in 0..r.gen_range(1..=3) {
                let t = gen::tweak(r);
                if !p.global.scalars.contains(&t) {
                    p.global.scalars.push(t);
                }
            }
        }
        Update::GlobalXpub => {
            let k = gp::xpub(r);
            p.global.xpub.insert(k, gp::key_source(r));
        }
        Update::OutputScripts => {
            let o = &mut p.outputs_mut()[oi];
            if r.gen_range(0..2) == 0 {
                o.redeem_script = Some(gp::small_script(r));
            } else {
                o.witness_script = Some(gp::small_script(r));
            }
        }
        Update::OutputTapInternalKey => p.outputs_mut()[oi].tap_internal_key = Some(gp::xonly(r)),
        Update::RequiredLocktime => {
            // a lock time no stronger than one another input already requires (so that the
            // transaction lock time, hence the id, usually stays the same), of the kind in use
            let max_h = p.inputs().iter().filter_map(|i| i.required_height_locktime).map(|h| h.to_consensus_u32()).max();
            let max_t = p.inputs().iter().filter_map(|i| i.required_time_locktime).map(|t| t.to_consensus_u32()).max();
            let inp = &mut p.inputs_mut()[ii];
            match (max_h, max_t) {
                (Some(h), _) if inp.required_height_locktime.is_none() && h >= 1 => {
                    inp.required_height_locktime = elements::locktime::Height::from_consensus(r.gen_range(1..=h)).ok();
                }
                (_, Some(t)) if inp.required_time_locktime.is_none() => {
                    inp.required_time_locktime = elements::locktime::Time::from_consensus(r.gen_range(500_000_000..=t)).ok();
                }
                _ => return false,
            }
        }
        Update::OutputBlinderIndex => {
            let o = &mut p.outputs_mut()[oi];
            if o.blinder_index.is_some() {
                return false;
            }
            o.blinder_index = Some(r.gen_range(0..ni.max(1)) as u32);
        }
        Update::OutputBlindingKey => {
            let o = &mut p.outputs_mut()[oi];
            if o.blinding_key.is_some() {
                return false;
            }
            o.blinding_key = Some(gp::btc_pubkey(r));
        }
        Update::UnknownInMap => {
            let (k, v) = (gp::unknown_key(r), gen::bytes(r, 5));
            if ni > 0 && (no == 0 || r.gen_range(0..2) == 0) {
                p.inputs_mut()[ii].unknown.insert(k, v);
            } else if no > 0 {
                p.outputs_mut()[oi].unknown.insert(k, v);
            } else {
                p.global.unknown.insert(k, v);
            }
        }
    }
    true
}

pub const UPDATES: [Update; 23] = [
    Update::Sequence,
    Update::PartialSig,
    Update::TapKeySig,
    Update::TapScriptSig,
    Update::FinalScriptSig,
    Update::FinalScriptWitness,
    Update::RedeemScript,
    Update::WitnessScript,
    Update::Bip32,
    Update::TapKeyOrigin,
    Update::SighashType,
    Update::InputExplicitAmount,
    Update::OutputExplicitProofs,
    Update::Proprietary,
    Update::Unknown,
    Update::OutputBip32,
    Update::TapInternalKey,
    Update::Preimage,
    Update::Scalars,
    Update::GlobalXpub,
    Update::OutputScripts,
    Update::OutputTapInternalKey,
    Update::UnknownInMap,
];

/// update kinds that need not preserve the unique id (used by the merge families, which filter on the id)
pub const MERGE_ONLY_UPDATES: [Update; 3] = [Update::RequiredLocktime, Update::OutputBlinderIndex, Update::OutputBlindingKey];

fn lock_values() -> (Vec<u32>, Vec<u32>) {
    // time values (>= threshold), height values (< threshold)
    (vec![500_000_000, 500_000_001, u32::MAX], vec![0, 1, 499_999_999])
}

fn check_locktime(ctx: &mut Ctx, reqs: &[(Option<u32>, Option<u32>)], fallback: Option<u32>) {
    ctx.eval();
    let mut p = Pset::new_v2();
    p.global.tx_data.fallback_locktime = fallback.map(LockTime::from_consensus);
    for (t, h) in reqs {
        let mut i = Input::from_prevout(OutPoint { txid: Txid::from_byte_array([7u8; 32]), vout: 0 });
        i.required_time_locktime = t.map(|t| Time::from_consensus(t).unwrap());
        i.required_height_locktime = h.map(|h| Height::from_consensus(h).unwrap());
        p.add_input(i);
    }
    let want = psetx::locktime(reqs, fallback);
    let got = match guard(|| p.locktime()) {
        Ok(g) => g,
        Err(pn) => {
            ctx.panic_violation("Pset::locktime", &pn, json!({"reqs": format!("{:?}", reqs), "fallback": fallback}));
            return;
        }
    };
    let kinds: Vec<&str> = reqs.iter().map(|r| match r { (None, None) => "none", (Some(_), None) => "time", (None, Some(_)) => "height", _ => "both" }).collect();
    let mut ks = kinds.clone();
    ks.sort();
    ks.dedup();
    let cls = ks.join("+");
    match (&got, &want) {
        (Ok(g), Ok(w)) => {
            let kind = |v: u32| if v >= 500_000_000 { "time" } else { "height" };
            ctx.check(g.to_consensus_u32() == *w, &format!("locktime!=bip370/{}/expected-{}-got-{}", cls, kind(*w), kind(g.to_consensus_u32())), || {
                json!({"requirements(time,height)": format!("{:?}", reqs), "fallback": fallback, "expected": w, "observed": g.to_consensus_u32()})
            });
        }
        (Err(_), Err(_)) => ctx.count("locktime-conflicts-agree"),
        (Ok(g), Err(_)) => ctx.violation(&format!("locktime-ok-where-no-kind-is-supported-by-all/{}", cls), json!({"requirements": format!("{:?}", reqs), "observed": g.to_consensus_u32()})),
        (Err(e), Ok(w)) => ctx.violation(&format!("locktime-error-where-defined/{}", cls), json!({"requirements": format!("{:?}", reqs), "expected": w, "err": format!("{:?}", e)})),
    }
    ctx.shape(("lock", kinds.join(","), fallback.map(|f| f >= 500_000_000)));
}

pub fn run(ctx: &mut Ctx) {
    // ---- transaction -> PSET -> transaction
    let n = ctx.budget(20_000, 800_000);
    ctx.phase("tx-pset-tx", n, |ctx, k| {
        ctx.eval();
        let d = TxDials { wellformed: true, exotic_outputs: false, wit_mask: (k % 64) as u8, max_in: 4, max_out: 4, ..TxDials::default() };
        let mut t = gen::tx(&mut ctx.rng, &d);
        // the PSET form has no place for these (documented narrowing): explicit nonces, null fields
        for o in t.output.iter_mut() {
            if o.nonce.is_explicit() {
                o.nonce = conf::Nonce::Null;
            }
            // explicit outputs carrying a blinding key in the nonce are a known open finding
            // (known_findings.json): keep them in one case out of eight only, so that the
            // finding cannot mask other differences of the same transactions
            if k % 8 != 0 && o.nonce.is_confidential() && !o.is_partially_blinded() {
                o.nonce = conf::Nonce::Null;
            }
        }
        let cls = tx_class(&t);
        ctx.shape(("tx", gen::tx_shape(&t)));
        ctx.count(&format!("tx-class/{}", cls));
        if k < 10 {
            ctx.sample(&format!("tx-{}", k), json!({"hex": hex_short(&serialize(&t)), "class": cls}));
        }
        let res = guard(|| Pset::from_tx(t.clone()).extract_tx());
        match res {
            Ok(Ok(back)) => {
                if back != t {
                    let diff = first_diff(&t, &back);
                    // feature class of the differing field only, so that the signature is stable
                    let fclass = match diff.as_str() {
                        "output.nonce" => {
                            let i = t.output.iter().zip(back.output.iter()).position(|(a, b)| a.nonce != b.nonce).unwrap();
                            if t.output[i].nonce.is_confidential() && !t.output[i].is_partially_blinded() { "explicit-output-with-blinding-nonce" } else { "other" }
                        }
                        "input.is_pegin" | "input.previous_output" => {
                            if t.input.iter().any(|i| i.previous_output.vout == 0xffff_ffff) { "coinbase-index" } else { "other" }
                        }
                        _ => "other",
                    };
                    ctx.violation(&format!("from_tx-extract_tx-not-identity/diff={}/{}", diff, fclass), json!({"tx": hex_short(&serialize(&t)), "extracted": hex_short(&serialize(&back)), "first_difference": diff, "tx_class": cls}));
                }
            }
            Ok(Err(e)) => ctx.violation(&format!("extract_tx-failed-on-wellformed-tx/{}", cls), json!({"err": format!("{:?}", e), "tx": hex_short(&serialize(&t))})),
            Err(p) => ctx.panic_violation("from_tx/extract_tx", &p, json!({"tx": hex_short(&serialize(&t))})),
        }
    });

    // ---- extraction is deterministic and reflects the PSET fields
    let n = ctx.budget(8_000, 300_000);
    ctx.phase("extraction-reflects-fields", n, |ctx, k| {
        ctx.eval();
        let p = extractable_pset(&mut ctx.rng, if k % 2 == 0 { P(1, 3) } else { P(2, 3) });
        let want = psetx::extract(&p);
        let a = guard(|| p.extract_tx());
        let b = guard(|| p.extract_tx());
        let (a, b) = match (a, b) {
            (Ok(a), Ok(b)) => (a, b),
            (Err(pn), _) | (_, Err(pn)) => {
                ctx.panic_violation("Pset::extract_tx", &pn, json!({"pset": hex_short(&serialize(&p))}));
                return;
            }
        };
        ctx.check(format!("{:?}", a) == format!("{:?}", b), "two-extractions-differ", || json!({"pset": hex_short(&serialize(&p))}));
        match (a, want) {
            (Ok(t), Some(Ok(w))) => {
                let got = ser::rtx(&t);
                if got != w {
                    let field = if got.version != w.version { "version" } else if got.lock_time != w.lock_time { "lock_time" } else if got.ins != w.ins { "inputs" } else { "outputs" };
                    ctx.violation(&format!("extracted-tx-does-not-reflect-pset-fields/{}", field), json!({"pset": hex_short(&serialize(&p)), "extracted": hex_short(&serialize(&t)), "expected": hex_short(&w.full())}));
                }
                ctx.count("extractions-compared");
            }
            (Err(_), Some(Err(_))) => ctx.count("locktime-conflict-psets"),
            (Err(_), None) => ctx.count("unextractable-psets"),
            (Ok(_), Some(Err(_))) => ctx.violation("extract-ok-despite-locktime-conflict", json!({"pset": hex_short(&serialize(&p))})),
            (Ok(_), None) => ctx.violation("extract-ok-despite-missing-output-fields", json!({"pset": hex_short(&serialize(&p))})),
            (Err(e), Some(Ok(_))) => ctx.violation("extract-failed-on-extractable-pset", json!({"err": format!("{:?}", e), "pset": hex_short(&serialize(&p))})),
        }
        ctx.shape(("extract", p.n_inputs(), p.n_outputs(), k % 2));
    });

    // ---- unique id is invariant under non-identifying updates (histories of updates)
    let n = ctx.budget(8_000, 300_000);
    ctx.phase("unique-id-histories", n, |ctx, k| {
        let mut p = extractable_pset(&mut ctx.rng, P(1, 4));
        // no lock-time conflicts in the base
        for i in p.inputs_mut() {
            if k % 2 == 0 {
                i.required_time_locktime = None;
            } else {
                i.required_height_locktime = None;
            }
        }
        // one case in six: an input spending the null outpoint (coinbase form)
        if k % 6 == 5 && p.n_inputs() > 0 {
            let i = ctx.rng.gen_range(0..p.n_inputs());
            let inp = &mut p.inputs_mut()[i];
            inp.previous_txid = elements::Txid::from_byte_array([0u8; 32]);
            inp.previous_output_index = 0xffff_ffff;
            ctx.count("unique-id-bases-with-null-outpoint-input");
        }
        let Ok(id0) = p.unique_id() else {
            ctx.count("base-without-unique-id");
            return;
        };
        let steps = ctx.rng.gen_range(1..=8);
        let mut history = Vec::new();
        for _ in 0..steps {
            let u = gen::pick(&mut ctx.rng, &UPDATES).clone();
            let before = serialize(&p);
            if !apply_update(&mut ctx.rng, &mut p, &u) {
                continue;
            }
            ctx.eval();
            history.push(format!("{:?}", u));
            match guard(|| p.unique_id()) {
                Ok(Ok(id)) => {
                    if id != id0 {
                        ctx.violation(&format!("unique-id-changed-by/{:?}", u), json!({"history": history, "before": hex_short(&before), "after": hex_short(&serialize(&p)), "id0": hex(&id0.to_byte_array()), "id": hex(&id.to_byte_array())}));
                        break;
                    }
                }
                Ok(Err(e)) => {
                    ctx.violation(&format!("unique-id-error-after/{:?}", u), json!({"err": format!("{:?}", e), "history": history}));
                    break;
                }
                Err(pn) => {
                    ctx.panic_violation("Pset::unique_id", &pn, json!({"history": history}));
                    break;
                }
            }
            ctx.count(&format!("update/{:?}", u));
            ctx.shape(("upd", format!("{:?}", u), history.len()));
        }
        // and it does change with identifying data (sanity of the oracle)
        if p.n_outputs() > 0 {
            let mut q = p.clone();
            let mut b = q.outputs_mut()[0].script_pubkey.to_bytes();
            b.push(0x51);
            q.outputs_mut()[0].script_pubkey = elements::Script::from(b);
            if let (Ok(a), Ok(c)) = (p.unique_id(), q.unique_id()) {
                ctx.check(a != c, "unique-id-ignores-output-script", || json!({}));
            }
        }
    });

    // ---- lock time: exhaustive for 0..=3 inputs
    let (tv, hv) = lock_values();
    // per-input options: none, time(3 values), height(3 values), both(3x3 values) = 16
    let mut opts: Vec<(Option<u32>, Option<u32>)> = vec![(None, None)];
    for t in &tv {
        opts.push((Some(*t), None));
    }
    for h in &hv {
        opts.push((None, Some(*h)));
    }
    for t in &tv {
        for h in &hv {
            opts.push((Some(*t), Some(*h)));
        }
    }
    let fallbacks = [None, Some(0u32), Some(77), Some(499_999_999), Some(500_000_000), Some(1_700_000_000)];
    let no = opts.len() as u64; // 16
    let total = 1 + no + no * no + no * no * no;
    ctx.seen("exhaustive_subspaces", "C08: every assignment of {none, time(3 values), height(3 values), both(9 pairs)} to 0..=3 inputs x 6 fallbacks (4369 x 6 lock-time computations)");
    ctx.phase("locktime-exhaustive", total, |ctx, k| {
        let (n_in, mut code) = if k == 0 { (0, 0) } else if k < 1 + no { (1, k - 1) } else if k < 1 + no + no * no { (2, k - 1 - no) } else { (3, k - 1 - no - no * no) };
        let mut reqs = Vec::new();
        for _ in 0..n_in {
            reqs.push(opts[(code % no) as usize]);
            code /= no;
        }
        for f in fallbacks {
            check_locktime(ctx, &reqs, f);
        }
    });
    let n = ctx.budget(4_000, 200_000);
    ctx.phase("locktime-sampled", n, |ctx, _| {
        let n_in = ctx.rng.gen_range(4..=8);
        let reqs: Vec<(Option<u32>, Option<u32>)> = (0..n_in)
            .map(|_| {
                let t = if ctx.rng.gen_range(0..2) == 0 { Some(ctx.rng.gen_range(500_000_000..=u32::MAX)) } else { None };
                let h = if ctx.rng.gen_range(0..2) == 0 { Some(ctx.rng.gen_range(0..500_000_000)) } else { None };
                (t, h)
            })
            .collect();
        let f = if ctx.rng.gen_range(0..2) == 0 { None } else { Some(ctx.rng.gen()) };
        check_locktime(ctx, &reqs, f);
    });
}
