//! C01 — consensus encoding is an exact bijection on canonical values.
use crate::gen::{self, Rg, TxDials};
use crate::iofault::{ChunkedReader, CountingWriter, FailingWriter, ShortWriter};
use crate::mutate;
use crate::refmodel::ser::{self, DecErr, W};
use crate::rt::{guard, hex_short, Ctx};
use elements::confidential as conf;
use elements::encode::{deserialize, deserialize_partial, serialize, Decodable, Encodable};
use elements::secp256k1_zkp as zkp;
use elements::{
    AssetIssuance, Block, BlockHeader, LockTime, OutPoint, Script, Sequence, Transaction, TxIn, TxInWitness, TxOut,
    TxOutWitness,
};
use rand::Rng;
use serde_json::json;
use std::fmt::Debug;

/// A library type together with its reference model.
pub trait Modelled: Encodable + Decodable + PartialEq + Debug + Sized {
    const NAME: &'static str;
    /// reference serialization computed from public fields only
    fn refser(&self, w: &mut W);
    /// does the reference decoder accept exactly this byte string?
    fn refdec(b: &[u8]) -> Result<(), DecErr>;
}

macro_rules! modelled {
    ($t:ty, $name:expr, |$s:ident, $w:ident| $ser:expr, |$r:ident| $dec:expr) => {
        impl Modelled for $t {
            const NAME: &'static str = $name;
            fn refser(&self, $w: &mut W) {
                let $s = self;
                $ser
            }
            fn refdec(b: &[u8]) -> Result<(), DecErr> {
                ser::whole(b, |$r| $dec.map(|_| ()))
            }
        }
    };
}

modelled!(Transaction, "Transaction", |s, w| ser::rtx(s).ser_to(w, true), |r| ser::dec_tx(r));
modelled!(TxIn, "TxIn", |s, w| ser::rtxin(s).ser(w), |r| ser::dec_txin(r));
modelled!(TxOut, "TxOut", |s, w| ser::rtxout(s).ser(w), |r| ser::dec_txout(r));
modelled!(TxInWitness, "TxInWitness", |s, w| ser::rinwit(s).ser(w), |r| ser::dec_inwit(r));
modelled!(TxOutWitness, "TxOutWitness", |s, w| ser::routwit(s).ser(w), |r| ser::dec_outwit(r));
modelled!(Block, "Block", |s, w| ser::rblock(s).ser_to(w), |r| ser::dec_block(r));
modelled!(BlockHeader, "BlockHeader", |s, w| ser::rheader(s).ser_to(w, false), |r| ser::dec_header(r));
modelled!(elements::dynafed::Params, "dynafed::Params", |s, w| ser::rparams(s).ser(w), |r| ser::dec_params(r));
modelled!(conf::Asset, "Asset", |s, w| ser::rasset(s).ser(w), |r| ser::dec_asset(r));
modelled!(conf::Value, "Value", |s, w| ser::rvalue(s).ser(w), |r| ser::dec_value(r));
modelled!(conf::Nonce, "Nonce", |s, w| ser::rnonce(s).ser(w), |r| ser::dec_nonce(r));
modelled!(AssetIssuance, "AssetIssuance", |s, w| ser::rissuance_raw(s).ser(w), |r| ser::dec_issuance(r));
modelled!(
    OutPoint,
    "OutPoint",
    |s, w| {
        w.raw(&ser::txid_bytes(&s.txid), ser::Kind::Fixed);
        w.le32(s.vout, ser::Kind::Fixed)
    },
    |r| r.take(36)
);
modelled!(Script, "Script", |s, w| w.vb(s.as_bytes()), |r| r.vb());
modelled!(LockTime, "LockTime", |s, w| w.le32(s.to_consensus_u32(), ser::Kind::Fixed), |r| r.le32());
modelled!(Sequence, "Sequence", |s, w| w.le32(s.0, ser::Kind::Fixed), |r| r.le32());
modelled!(Vec<u8>, "Vec<u8>", |s, w| w.vb(s), |r| r.vb());
modelled!(Vec<Vec<u8>>, "Vec<Vec<u8>>", |s, w| w.vvb(s), |r| r.vvb());
modelled!(
    zkp::PedersenCommitment,
    "PedersenCommitment",
    |s, w| w.raw(&s.serialize(), ser::Kind::Fixed),
    |r| {
        let b = r.take(33)?;
        zkp::PedersenCommitment::from_slice(b).map_err(|_| DecErr::BadPoint("pedersen"))
    }
);
modelled!(
    zkp::Generator,
    "Generator",
    |s, w| w.raw(&s.serialize(), ser::Kind::Fixed),
    |r| {
        let b = r.take(33)?;
        zkp::Generator::from_slice(b).map_err(|_| DecErr::BadPoint("generator"))
    }
);
impl Modelled for elements::dynafed::FullParams {
    const NAME: &'static str = "dynafed::FullParams";
    fn refser(&self, w: &mut W) {
        // full params without the tag byte
        let p = ser::rparams(&elements::dynafed::Params::Full(self.clone()));
        let mut w2 = W::new();
        p.ser(&mut w2);
        w.raw(&w2.buf[1..], ser::Kind::Fixed);
    }
    fn refdec(b: &[u8]) -> Result<(), DecErr> {
        let mut t = vec![2u8];
        t.extend_from_slice(b);
        ser::whole(&t, |r| ser::dec_params(r).map(|_| ()))
    }
}

pub fn refser_of<T: Modelled>(v: &T) -> W {
    let mut w = W::new();
    v.refser(&mut w);
    w
}

fn err_class(e: &elements::encode::Error) -> String {
    let s = format!("{:?}", e);
    s.split(|c| c == '(' || c == ' ' || c == '{').next().unwrap_or("?").to_string()
}

/// bytes -> value direction: if the decoder accepts `b`, everything must be consumed,
/// re-encoding must give `b` back, the reference serializer must agree, and the
/// reference decoder must accept `b` too. Returns whether the library accepted.
pub fn check_bytes<T: Modelled>(ctx: &mut Ctx, b: &[u8], origin: &str) -> bool {
    ctx.eval();
    let name = T::NAME;
    let r = match guard(|| deserialize::<T>(b)) {
        Ok(r) => r,
        Err(p) => {
            // totality belongs to C10; here a panic still means "not a clean accept/reject"
            ctx.panic_violation(&format!("deserialize::<{}>", name), &p, json!({"bytes": hex_short(b), "origin": origin}));
            return false;
        }
    };
    match r {
        Err(e) => {
            ctx.count(&format!("reject/{}", name));
            ctx.seen("reject_classes", &format!("{}:{}", name, err_class(&e)));
            false
        }
        Ok(v) => {
            ctx.count(&format!("accept/{}", name));
            ctx.count(&format!("accept-origin/{}", origin));
            let re = serialize(&v);
            ctx.check(re == b, &format!("accepted-but-reencodes-differently/{}/{}", name, origin), || {
                json!({"type": name, "input": hex_short(b), "reencoded": hex_short(&re), "origin": origin})
            });
            let rs = refser_of(&v).buf;
            ctx.check(rs == b, &format!("accepted-but-reference-serializer-differs/{}/{}", name, origin), || {
                json!({"type": name, "input": hex_short(b), "refser": hex_short(&rs), "origin": origin})
            });
            let rd = T::refdec(b);
            if let Err(e) = &rd {
                let cls = format!("{:?}", e);
                let cls = cls.split('(').next().unwrap_or("?").to_string();
                ctx.violation(
                    &format!("accepted-noncanonical/{}/{}", name, cls),
                    json!({"type": name, "input": hex_short(b), "reference_decoder": format!("{:?}", e), "origin": origin}),
                );
            }
            // partial decode must report the consumed length
            match deserialize_partial::<T>(b) {
                Ok((v2, n)) => {
                    ctx.check(n == b.len() && v2 == v, &format!("partial-consumed-mismatch/{}", name), || {
                        json!({"type": name, "input": hex_short(b), "consumed": n})
                    });
                }
                Err(_) => ctx.violation(&format!("partial-rejects-what-deserialize-accepts/{}", name), json!({"input": hex_short(b)})),
            }
            ctx.shape((name, b.len().min(300), origin.len()));
            true
        }
    }
}

/// value -> bytes direction
pub fn check_value<T: Modelled>(ctx: &mut Ctx, v: &T, what: &str) {
    ctx.eval();
    let name = T::NAME;
    let enc = match guard(|| serialize(v)) {
        Ok(e) => e,
        Err(p) => {
            ctx.panic_violation(&format!("serialize::<{}>", name), &p, json!({"value": format!("{:?}", v).chars().take(400).collect::<String>()}));
            return;
        }
    };
    let dbg = |v: &T| format!("{:?}", v).chars().take(500).collect::<String>();
    // reported length == bytes written
    let mut cw = CountingWriter::default();
    match v.consensus_encode(&mut cw) {
        Ok(n) => {
            ctx.check(n == cw.n && cw.buf == enc, &format!("encode-length-mismatch/{}", name), || {
                json!({"type": name, "reported": n, "written": cw.n, "value": dbg(v)})
            });
        }
        Err(e) => ctx.violation(&format!("encode-error-on-infallible-writer/{}", name), json!({"err": format!("{:?}", e)})),
    }
    // reference serializer
    let rs = refser_of(v).buf;
    ctx.check(rs == enc, &format!("serialize!=reference/{}/{}", name, what), || {
        json!({"type": name, "library": hex_short(&enc), "reference": hex_short(&rs), "value": dbg(v)})
    });
    // decode back
    match guard(|| deserialize::<T>(&enc)) {
        Ok(Ok(v2)) => {
            ctx.check(&v2 == v, &format!("roundtrip-value-differs/{}/{}", name, what), || {
                json!({"type": name, "bytes": hex_short(&enc), "value": dbg(v), "decoded": dbg(&v2)})
            });
        }
        Ok(Err(e)) => ctx.violation(
            &format!("own-encoding-rejected/{}/{}/{}", name, what, err_class(&e)),
            json!({"type": name, "bytes": hex_short(&enc), "err": format!("{:?}", e), "value": dbg(v)}),
        ),
        Err(p) => ctx.panic_violation(&format!("deserialize::<{}>", name), &p, json!({"bytes": hex_short(&enc)})),
    }
    // trailing junk: partial decode reports exactly the encoding's length; strict decode rejects
    let junk_n = ctx.rng.gen_range(1..10);
    let mut ext = enc.clone();
    ext.extend_from_slice(&gen::bytes(&mut ctx.rng, junk_n));
    match deserialize_partial::<T>(&ext) {
        Ok((v2, n)) => {
            ctx.check(n == enc.len() && &v2 == v, &format!("partial-length-wrong/{}", name), || {
                json!({"type": name, "consumed": n, "encoding_len": enc.len()})
            });
        }
        Err(e) => ctx.violation(&format!("partial-rejects-valid-prefix/{}", name), json!({"err": format!("{:?}", e), "bytes": hex_short(&ext)})),
    }
    ctx.check(deserialize::<T>(&ext).is_err(), &format!("trailing-data-accepted/{}", name), || {
        json!({"type": name, "bytes": hex_short(&ext), "junk": junk_n})
    });
    // strict prefixes must be rejected (deterministic left-to-right parser hits EOF)
    if !enc.is_empty() {
        let cuts: Vec<usize> = if enc.len() <= 48 {
            (0..enc.len()).collect()
        } else {
            let mut c: Vec<usize> = (0..6).map(|_| ctx.rng.gen_range(0..enc.len())).collect();
            c.push(enc.len() - 1);
            c
        };
        for k in cuts {
            ctx.eval();
            match guard(|| deserialize::<T>(&enc[..k])) {
                Ok(r) => {
                    ctx.check(r.is_err(), &format!("strict-prefix-accepted/{}", name), || {
                        json!({"type": name, "bytes": hex_short(&enc), "prefix_len": k})
                    });
                }
                Err(p) => ctx.panic_violation(&format!("deserialize::<{}>", name), &p, json!({"bytes": hex_short(&enc[..k])})),
            }
            ctx.count("prefix-rejections");
        }
    }
    // fault injection at the reader: tiny chunks + spurious EINTR
    let seed = ctx.rng.gen();
    let mut cr = ChunkedReader::new(&enc, seed, 1 + (seed as usize % 7));
    match T::consensus_decode(&mut cr) {
        Ok(v2) => {
            ctx.check(&v2 == v && cr.pos == enc.len(), &format!("chunked-read-differs/{}", name), || {
                json!({"type": name, "consumed": cr.pos, "len": enc.len()})
            });
            ctx.add("injected-interrupts", cr.interrupts);
            ctx.add("chunked-reads", cr.reads);
        }
        Err(e) => ctx.violation(&format!("chunked-read-fails/{}", name), json!({"err": format!("{:?}", e), "bytes": hex_short(&enc)})),
    }
    // fault injection at the writer: short writes
    let mut sw = ShortWriter { written: vec![], k: 1 + (seed as usize % 5), calls: 0 };
    match v.consensus_encode(&mut sw) {
        Ok(n) => {
            ctx.check(sw.written == enc && n == enc.len(), &format!("short-writes-lose-data/{}", name), || {
                json!({"type": name, "written": sw.written.len(), "expected": enc.len(), "reported": n})
            });
        }
        Err(e) => ctx.violation(&format!("short-writer-error/{}", name), json!({"err": format!("{:?}", e)})),
    }
    // failing writer: an error, never a panic; what was written is a prefix
    if !enc.is_empty() {
        let k = ctx.rng.gen_range(0..enc.len());
        let mut fw = FailingWriter { written: vec![], limit: k };
        match guard(|| v.consensus_encode(&mut fw)) {
            Ok(r) => {
                ctx.check(r.is_err(), &format!("failing-writer-reported-ok/{}", name), || json!({"type": name, "limit": k, "len": enc.len()}));
                ctx.check(enc.starts_with(&fw.written), &format!("failing-writer-prefix-differs/{}", name), || json!({"type": name}));
                ctx.count("write-faults-injected");
            }
            Err(p) => ctx.panic_violation(&format!("consensus_encode::<{}> into failing writer", name), &p, json!({"limit": k})),
        }
    }
    ctx.count(&format!("values/{}", name));
}

fn all_types_bytes(ctx: &mut Ctx, b: &[u8], origin: &str) -> u32 {
    let mut acc = 0u32;
    acc += check_bytes::<Transaction>(ctx, b, origin) as u32;
    acc += check_bytes::<Block>(ctx, b, origin) as u32;
    acc += check_bytes::<BlockHeader>(ctx, b, origin) as u32;
    acc += check_bytes::<TxIn>(ctx, b, origin) as u32;
    acc += check_bytes::<TxOut>(ctx, b, origin) as u32;
    acc += check_bytes::<TxInWitness>(ctx, b, origin) as u32;
    acc += check_bytes::<TxOutWitness>(ctx, b, origin) as u32;
    acc += check_bytes::<elements::dynafed::Params>(ctx, b, origin) as u32;
    acc += check_bytes::<conf::Asset>(ctx, b, origin) as u32;
    acc += check_bytes::<conf::Value>(ctx, b, origin) as u32;
    acc += check_bytes::<conf::Nonce>(ctx, b, origin) as u32;
    acc += check_bytes::<AssetIssuance>(ctx, b, origin) as u32;
    acc += check_bytes::<Script>(ctx, b, origin) as u32;
    acc += check_bytes::<Vec<Vec<u8>>>(ctx, b, origin) as u32;
    acc
}

/// One generated value of a type chosen by `k`, its encoding and the reference field map.
pub fn gen_encoded(r: &mut Rg, k: u64, big: bool) -> (&'static str, Vec<u8>, Vec<ser::Mark>) {
    let d = TxDials { big, ..TxDials::default() };
    macro_rules! enc {
        ($v:expr) => {{
            let v = $v;
            let w = refser_of(&v);
            (name_of(&v), serialize(&v), w.marks)
        }};
    }
    fn name_of<T: Modelled>(_: &T) -> &'static str {
        T::NAME
    }
    match k % 12 {
        0 | 1 | 2 | 3 => enc!(gen::tx(r, &d)),
        4 => enc!(gen::header(r)),
        5 => enc!(gen::block(r, 3)),
        6 => enc!(gen::params_v(r, (k / 12 % 3) as u8)),
        7 => {
            let mut i = gen::txin(r, &d, false);
            i.witness = TxInWitness::default();
            enc!(i)
        }
        8 => {
            let mut o = gen::txout(r, &d);
            o.witness = TxOutWitness::default();
            enc!(o)
        }
        9 => enc!(gen::txin(r, &d, false).witness),
        10 => enc!(gen::txout(r, &TxDials { wit_mask: 0x3f, ..d }).witness),
        _ => match k / 12 % 4 {
            0 => enc!(gen::asset_v(r, (k / 48 % 3) as u8)),
            1 => enc!(gen::value_v(r, (k / 48 % 3) as u8)),
            2 => enc!(gen::nonce_v(r, (k / 48 % 3) as u8)),
            _ => enc!(gen::issuance(r)),
        },
    }
}

fn decode_named(ctx: &mut Ctx, name: &str, b: &[u8], origin: &str) -> bool {
    match name {
        "Transaction" => check_bytes::<Transaction>(ctx, b, origin),
        "Block" => check_bytes::<Block>(ctx, b, origin),
        "BlockHeader" => check_bytes::<BlockHeader>(ctx, b, origin),
        "TxIn" => check_bytes::<TxIn>(ctx, b, origin),
        "TxOut" => check_bytes::<TxOut>(ctx, b, origin),
        "TxInWitness" => check_bytes::<TxInWitness>(ctx, b, origin),
        "TxOutWitness" => check_bytes::<TxOutWitness>(ctx, b, origin),
        "dynafed::Params" => check_bytes::<elements::dynafed::Params>(ctx, b, origin),
        "dynafed::FullParams" => check_bytes::<elements::dynafed::FullParams>(ctx, b, origin),
        "Asset" => check_bytes::<conf::Asset>(ctx, b, origin),
        "Value" => check_bytes::<conf::Value>(ctx, b, origin),
        "Nonce" => check_bytes::<conf::Nonce>(ctx, b, origin),
        "AssetIssuance" => check_bytes::<AssetIssuance>(ctx, b, origin),
        "OutPoint" => check_bytes::<OutPoint>(ctx, b, origin),
        "Script" => check_bytes::<Script>(ctx, b, origin),
        "LockTime" => check_bytes::<LockTime>(ctx, b, origin),
        "Sequence" => check_bytes::<Sequence>(ctx, b, origin),
        "Vec<u8>" => check_bytes::<Vec<u8>>(ctx, b, origin),
        "Vec<Vec<u8>>" => check_bytes::<Vec<Vec<u8>>>(ctx, b, origin),
        "PedersenCommitment" => check_bytes::<zkp::PedersenCommitment>(ctx, b, origin),
        "Generator" => check_bytes::<zkp::Generator>(ctx, b, origin),
        _ => false,
    }
}

pub fn run(ctx: &mut Ctx) {
    // ---- phase: harvested repository vectors, decoded as every type, then mutated
    let corpus = crate::corpus::harvest();
    ctx.max("corpus_vectors", corpus.len() as u64);
    let muts_per = ctx.budget(40, 1500);
    ctx.phase("corpus", corpus.len() as u64, |ctx, k| {
        let b = &corpus[k as usize];
        let acc = all_types_bytes(ctx, b, "corpus");
        if acc > 0 {
            ctx.count("corpus_vectors_accepted_by_some_decoder");
        }
        // mutations of accepted vectors (the interesting seeds) and a few of the others
        let n = if acc > 0 { muts_per } else { 2 };
        for _ in 0..n {
            let mut m = b.clone();
            let label = mutate::generic(&mut ctx.rng, &mut m);
            ctx.count(&format!("mutator/{}", label));
            all_types_bytes(ctx, &m, "corpus-mutated");
        }
    });

    // ---- phase: generated canonical values, value -> bytes -> value
    let n = ctx.budget(24_000, 1_200_000);
    ctx.phase("values", n, |ctx, k| {
        let big = k % 40 == 7;
        let d = TxDials { big, max_in: if k % 9 == 0 { 8 } else { 4 }, max_out: if k % 9 == 0 { 8 } else { 4 }, ..TxDials::default() };
        match k % 10 {
            0..=4 => {
                // cycle through all 64 presence patterns of the six witness fields
                let d = TxDials { wit_mask: (k / 10 % 64) as u8, ..d };
                let t = gen::tx(&mut ctx.rng, &d);
                ctx.shape(("tx", gen::tx_shape(&t)));
                if k < 50 {
                    ctx.sample("generated-transaction", json!({"hex": hex_short(&serialize(&t)), "shape": gen::tx_shape(&t)}));
                }
                check_value(ctx, &t, "generated");
                if let Some(i) = t.input.first() {
                    let mut i = i.clone();
                    i.witness = TxInWitness::default();
                    check_value(ctx, &i, "generated");
                    check_value(ctx, &i.previous_output, "generated");
                    check_value(ctx, &i.asset_issuance, "generated");
                    check_value(ctx, &i.script_sig, "generated");
                    check_value(ctx, &i.sequence, "generated");
                }
                if let Some(i) = t.input.last() {
                    check_value(ctx, &i.witness, "generated");
                }
                if let Some(o) = t.output.first() {
                    check_value(ctx, &o.witness, "generated");
                    let mut o = o.clone();
                    o.witness = TxOutWitness::default();
                    check_value(ctx, &o, "generated");
                    check_value(ctx, &o.asset, "generated");
                    check_value(ctx, &o.value, "generated");
                    check_value(ctx, &o.nonce, "generated");
                }
                check_value(ctx, &t.lock_time, "generated");
            }
            5 | 6 => {
                let h = gen::header(&mut ctx.rng);
                let (cv, pv) = match &h.ext {
                    elements::BlockExtData::Dynafed { current, proposed, .. } => {
                        check_value(ctx, current, "generated");
                        if let elements::dynafed::Params::Full(f) = proposed {
                            check_value(ctx, f, "generated");
                        }
                        (1 + current.is_compact() as u8 + 2 * current.is_full() as u8, 1 + proposed.is_compact() as u8 + 2 * proposed.is_full() as u8)
                    }
                    _ => (0, 0),
                };
                ctx.shape(("hdr", cv, pv));
                if k < 50 {
                    ctx.sample("generated-header", json!({"hex": hex_short(&serialize(&h))}));
                }
                check_value(ctx, &h, "generated");
            }
            7 => {
                let b = gen::block(&mut ctx.rng, if big { 12 } else { 3 });
                ctx.shape(("block", b.txdata.len(), b.header.is_dynafed()));
                check_value(ctx, &b, "generated");
            }
            8 => {
                for v in 0..3u8 {
                    let a = gen::asset_v(&mut ctx.rng, v);
                    check_value(ctx, &a, "generated");
                    let a = gen::value_v(&mut ctx.rng, v);
                    check_value(ctx, &a, "generated");
                    let a = gen::nonce_v(&mut ctx.rng, v);
                    check_value(ctx, &a, "generated");
                    ctx.shape(("conf", v));
                }
                let c = gen::pedersen(&mut ctx.rng);
                check_value(ctx, &c, "generated");
                let g = gen::generator(&mut ctx.rng);
                check_value(ctx, &g, "generated");
            }
            _ => {
                // vectors at every reachable compact-size width
                let lens: &[usize] = if big { &[0, 1, 252, 253, 65535, 65536, 100_000] } else { &[0, 1, 252, 253, 254, 1000] };
                let l = *gen::pick(&mut ctx.rng, lens);
                let v = gen::bytes(&mut ctx.rng, l);
                ctx.shape(("vec", l));
                check_value(ctx, &v, "generated");
                check_value(ctx, &Script::from(v), "generated");
                let cnt = *gen::pick(&mut ctx.rng, if big { &[0usize, 1, 252, 253, 65535, 65536][..] } else { &[0usize, 1, 3, 252, 253][..] });
                let vv: Vec<Vec<u8>> = (0..cnt).map(|i| vec![i as u8; i % 3]).collect();
                ctx.shape(("vecvec", cnt));
                check_value(ctx, &vv, "generated");
                if big {
                    // many inputs / outputs: counts on both sides of 252/253
                    let mut t = gen::tx(&mut ctx.rng, &TxDials { max_in: 1, max_out: 1, wit_mask: 0, ..TxDials::default() });
                    let cnt = *gen::pick(&mut ctx.rng, &[252usize, 253, 254]);
                    let proto_in = gen::txin(&mut ctx.rng, &TxDials { wit_mask: 0, issuance: false, ..TxDials::default() }, false);
                    t.input = vec![proto_in; cnt];
                    let proto_out = TxOut::new_fee(1, gen::asset_id(&mut ctx.rng));
                    t.output = vec![proto_out; cnt + 1];
                    ctx.shape(("many", cnt));
                    check_value(ctx, &t, "generated-many");
                }
            }
        }
    });

    // ---- phase: values produced by the library's own constructors and blinding functions
    // (real range / surjection proofs, commitments, ECDH nonces)
    let n = ctx.budget(160, 8_000);
    ctx.phase("blinded-values", n, |ctx, k| {
        use rand::SeedableRng;
        let sc = super::c04::gen_scenario(&mut ctx.rng, &crate::gen::blind::Dials { issuances: k % 2 == 0, ..Default::default() });
        let mut tx = sc.tx.clone();
        let mut brng = rand_chacha::ChaCha20Rng::seed_from_u64(ctx.rng.gen());
        if gen::with_secp(|s| tx.blind(&mut brng, s, &sc.blind_secrets, false)).is_err() {
            ctx.count("blinding-failed(see C04)");
            return;
        }
        ctx.shape(("blinded", sc.shape.clone()));
        check_value(ctx, &tx, "blinded");
        for o in &tx.output {
            check_value(ctx, &o.witness, "blinded");
            let mut o2 = o.clone();
            o2.witness = TxOutWitness::default();
            check_value(ctx, &o2, "blinded");
            check_value(ctx, &o.asset, "blinded");
            check_value(ctx, &o.value, "blinded");
            check_value(ctx, &o.nonce, "blinded");
        }
        for sp in &sc.spent {
            let mut s2 = sp.clone();
            s2.witness = TxOutWitness::default();
            check_value(ctx, &s2, "constructed");
        }
        // constructor-made values
        let fee = TxOut::new_fee(ctx.rng.gen(), gen::asset_id(&mut ctx.rng));
        check_value(ctx, &fee, "constructed");
        check_value(ctx, &AssetIssuance::null(), "constructed");
        check_value(ctx, &OutPoint::null(), "constructed");
        check_value(ctx, &elements::TxIn::default(), "constructed");
        if k < 4 {
            ctx.sample(&format!("blinded-{}", k), json!({"hex": hex_short(&serialize(&tx))}));
        }
    });

    // ---- phase: mutated encodings of generated values, bytes -> value
    let n = ctx.budget(30_000, 1_500_000);
    ctx.phase("mutations", n, |ctx, k| {
        let (name, enc, marks) = gen_encoded(&mut ctx.rng, k, k % 64 == 0);
        // unmutated encoding must be accepted
        if !decode_named(ctx, name, &enc, "generated-encoding") {
            ctx.violation(&format!("own-encoding-rejected/{}/mutation-seed", name), json!({"bytes": hex_short(&enc)}));
        }
        let rounds = 6;
        for j in 0..rounds {
            let (m, label) = if j % 3 != 2 {
                match mutate::structured(&mut ctx.rng, &enc, &marks) {
                    Some(x) => x,
                    None => continue,
                }
            } else {
                let mut m = enc.clone();
                let l = mutate::generic(&mut ctx.rng, &mut m);
                (m, l)
            };
            if m == enc {
                continue;
            }
            ctx.count(&format!("mutator/{}", label));
            let origin = format!("mut:{}", label);
            if decode_named(ctx, name, &m, &origin) {
                ctx.count(&format!("mutant-accepted/{}", label));
            } else {
                ctx.count(&format!("mutant-rejected/{}", label));
            }
        }
    });

    // ---- phase: every compact-size boundary value, written in every wider (non-minimal)
    // width, at each kind of length site: all must be rejected; the minimal form accepted.
    let boundaries: Vec<u64> = vec![0, 1, 2, 251, 252, 253, 254, 255, 256, 257, 65534, 65535, 65536, 65537, 70000];
    ctx.seen("exhaustive_subspaces", "C01: 15 compact-size boundary lengths x every wider (non-minimal) width x 5 kinds of length site; every byte value at every confidential-prefix / witness-flag / params-tag / compact-size position of the sweep seeds");
    ctx.phase("varint-boundaries", boundaries.len() as u64 * 5, |ctx, k| {
        let n = boundaries[(k / 5) as usize] as usize;
        let site = k % 5;
        let payload = gen::bytes(&mut ctx.rng, n);
        let minimal = crate::refmodel::merkle::cs(n as u64);
        // build (prefix-bytes-before-length, bytes-after-payload, type name)
        let (pre, post, name): (Vec<u8>, Vec<u8>, &str) = match site {
            0 => (vec![], vec![], "Vec<u8>"),
            1 => (vec![], vec![], "Script"),
            2 => {
                // TxOut: explicit asset, explicit value, null nonce, script of length n
                let mut pre = vec![1u8];
                pre.extend_from_slice(&gen::arr32(&mut ctx.rng));
                pre.push(1);
                pre.extend_from_slice(&5u64.to_be_bytes());
                pre.push(0);
                (pre, vec![], "TxOut")
            }
            3 => {
                // TxInWitness: no proofs, script witness of one item of length n, no pegin witness
                (vec![0, 0, 1], vec![0], "TxInWitness")
            }
            _ => {
                // a whole transaction with one input whose scriptSig has length n
                let mut pre = vec![2, 0, 0, 0, 0, 1];
                pre.extend_from_slice(&gen::arr32(&mut ctx.rng));
                pre.extend_from_slice(&[0, 0, 0, 0]);
                (pre, vec![0xff, 0xff, 0xff, 0xff, 0, 0, 0, 0, 0], "Transaction")
            }
        };
        let build = |lenenc: &[u8]| {
            let mut b = pre.clone();
            b.extend_from_slice(lenenc);
            b.extend_from_slice(&payload);
            b.extend_from_slice(&post);
            b
        };
        let ok = decode_named(ctx, name, &build(&minimal), "boundary-minimal");
        ctx.check(ok, &format!("minimal-length-encoding-rejected/{}", name), || json!({"len": n, "site": name}));
        for w in [3usize, 5, 9] {
            if w <= minimal.len() {
                continue;
            }
            let b = build(&mutate::cs_wide(n as u64, w));
            ctx.count("nonminimal-boundary-forms");
            if decode_named(ctx, name, &b, "boundary-nonminimal") {
                ctx.violation(&format!("nonminimal-varint-accepted/{}/width{}", name, w), json!({"len": n, "width": w, "site": name, "head": hex_short(&b[..b.len().min(80)])}));
            }
            ctx.shape(("boundary", n, w, site));
        }
    });

    // ---- phase: long byte vectors (beyond any plausible read-chunk size) and their truncations:
    // the complete encoding is accepted, every strict prefix is rejected (all these types are
    // self-delimiting), and nothing accepted re-encodes differently.
    // 4 000 000 is the largest vector the decoders accept
    let big_lens: Vec<usize> = vec![65_536, 131_072, 131_073, 140_000, 262_145, 1_048_577, 4_000_000];
    let n = ctx.budget(big_lens.len() as u64 * 5, big_lens.len() as u64 * 5 * 8);
    ctx.phase("long-vectors", n, |ctx, k| {
        let n = big_lens[(k as usize / 5) % big_lens.len()];
        let site = k % 5;
        let payload = gen::bytes(&mut ctx.rng, n);
        let lenenc = crate::refmodel::merkle::cs(n as u64);
        let (pre, post, name): (Vec<u8>, Vec<u8>, &str) = match site {
            0 => (vec![], vec![], "Vec<u8>"),
            1 => (vec![], vec![], "Script"),
            2 => {
                let mut pre = vec![1u8];
                pre.extend_from_slice(&gen::arr32(&mut ctx.rng));
                pre.push(1);
                pre.extend_from_slice(&5u64.to_be_bytes());
                pre.push(0);
                (pre, vec![], "TxOut")
            }
            3 => (vec![0, 0, 1], vec![0], "TxInWitness"),
            _ => {
                let mut pre = vec![2, 0, 0, 0, 0, 1];
                pre.extend_from_slice(&gen::arr32(&mut ctx.rng));
                pre.extend_from_slice(&[0, 0, 0, 0]);
                (pre, vec![0xff, 0xff, 0xff, 0xff, 0, 0, 0, 0, 0], "Transaction")
            }
        };
        let mut full = pre.clone();
        full.extend_from_slice(&lenenc);
        let body = full.len();
        full.extend_from_slice(&payload);
        full.extend_from_slice(&post);
        let ok = decode_named(ctx, name, &full, "long-vector");
        ctx.check(ok, &format!("long-vector-rejected/{}", name), || json!({"len": n, "site": name}));
        let mut cuts = vec![full.len() - 1, body + n - 1, body + n / 2, body + 1, body];
        for p2 in [4096usize, 65_536, 131_072, 262_144, 1_048_576] {
            if p2 < n {
                cuts.push(body + p2);
                cuts.push(body + p2 + 1);
            }
        }
        for _ in 0..3 {
            cuts.push(ctx.rng.gen_range(body..full.len()));
        }
        cuts.sort_unstable();
        cuts.dedup();
        for c in cuts {
            if c >= full.len() {
                continue;
            }
            ctx.count("long-vector-truncations");
            if decode_named(ctx, name, &full[..c], "long-vector-truncated") {
                ctx.violation(
                    &format!("truncated-encoding-accepted/{}", name),
                    json!({"type": name, "declared_len": n, "kept_payload_bytes": c.saturating_sub(body), "total_len": full.len(), "cut": c}),
                );
            }
            ctx.shape(("long", n, site, (c - body).min(n) * 8 / n));
        }
    });

    // ---- phase: exhaustive single-byte neighbourhood of the canonicity-critical bytes
    // (every value of every confidential prefix byte, witness flag and params tag of a few seeds)
    let n = ctx.budget(64, 600);
    ctx.phase("prefix-sweep", n, |ctx, k| {
        let (name, enc, marks) = gen_encoded(&mut ctx.rng, k, false);
        for m in marks.iter().filter(|m| {
            matches!(m.kind, ser::Kind::PrefixAsset | ser::Kind::PrefixValue | ser::Kind::PrefixNonce | ser::Kind::WitFlag | ser::Kind::ParamsTag | ser::Kind::Cs)
        }) {
            for x in 0..=255u8 {
                if enc[m.off] == x {
                    continue;
                }
                let mut e2 = enc.clone();
                e2[m.off] = x;
                decode_named(ctx, name, &e2, &format!("sweep:{:?}", m.kind));
                ctx.count("prefix-sweep-bytes");
            }
        }
    });
}
