//! C14 — merging PSETs never loses information, never panics, and is order-insensitive.
use super::c08::{apply_update_at, extractable_pset, Update, MERGE_ONLY_UPDATES, UPDATES};
use crate::gen::pset::{self as gp, P};
use crate::gen::{self, Rg};
use crate::refmodel::psetraw::{self, RawPset};
use crate::rt::{guard, hex_short, Ctx};
use elements::bitcoin::bip32::{ChildNumber, DerivationPath, Fingerprint};
use elements::encode::serialize;
use elements::pset::PartiallySignedTransaction as Pset;
use rand::{Rng, SeedableRng};
use serde_json::json;
use std::collections::HashSet;

fn raw_of(p: &Pset) -> RawPset {
    psetraw::parse(&serialize(p)).expect("library encoding parses")
}

/// pairs whose merge rule is not plain union (checked separately)
fn combined_rule(map_index: usize, key: &[u8]) -> bool {
    map_index == 0 && key.len() >= 1 && (key[0] == 0x06 || key[0] == 0xfb || key[0] == 0x01 || key[0] == 0x04 || key[0] == 0x05)
}

/// every raw pair of `part` must be present in `whole` (same map)
fn missing_pairs(whole: &RawPset, part: &RawPset) -> Vec<(usize, Vec<u8>)> {
    let mut miss = Vec::new();
    for (mi, m) in part.maps.iter().enumerate() {
        for (k, v) in m {
            if combined_rule(mi, k) {
                continue;
            }
            let found = whole.maps.get(mi).map(|wm| wm.iter().any(|(wk, wv)| wk == k && wv == v)).unwrap_or(false);
            if !found {
                miss.push((mi, k.clone()));
            }
        }
    }
    miss
}

fn key_class(p: &Pset, mi: usize, key: &[u8]) -> String {
    let which = if mi == 0 { "global" } else if mi <= p.n_inputs() { "input" } else { "output" };
    if key[0] == 0xfc && key.len() >= 7 && &key[1..6] == b"\x04pset" {
        format!("{}/pset-subtype{:#04x}", which, key[6])
    } else {
        format!("{}/type{:#04x}", which, key[0])
    }
}

fn permutations(n: usize) -> Vec<Vec<usize>> {
    if n == 0 {
        return vec![vec![]];
    }
    let mut out = Vec::new();
    for p in permutations(n - 1) {
        for pos in 0..=p.len() {
            let mut q = p.clone();
            q.insert(pos, n - 1);
            out.push(q);
        }
    }
    out
}

fn is_optional(u: &Update) -> bool {
    matches!(
        u,
        Update::Sequence | Update::TapKeySig | Update::FinalScriptSig | Update::FinalScriptWitness | Update::RedeemScript | Update::WitnessScript | Update::SighashType | Update::InputExplicitAmount | Update::OutputExplicitProofs | Update::TapInternalKey | Update::OutputScripts | Update::OutputTapInternalKey | Update::RequiredLocktime | Update::OutputBlinderIndex | Update::OutputBlindingKey
    )
}

fn merge_all(ctx: &mut Ctx, parts: &[Pset], order: &[usize], left: bool, d: &dyn Fn() -> serde_json::Value) -> Option<Pset> {
    // left fold: ((a <- b) <- c) <- d ; right grouping: a <- (b <- (c <- d))
    let res = guard(|| -> Result<Pset, String> {
        if left {
            let mut acc = parts[order[0]].clone();
            for i in &order[1..] {
                acc.merge(parts[*i].clone()).map_err(|e| format!("{:?}", e))?;
            }
            Ok(acc)
        } else {
            let mut acc = parts[*order.last().unwrap()].clone();
            for i in order[..order.len() - 1].iter().rev() {
                let mut next = parts[*i].clone();
                next.merge(acc).map_err(|e| format!("{:?}", e))?;
                acc = next;
            }
            Ok(acc)
        }
    });
    match res {
        Ok(Ok(p)) => Some(p),
        Ok(Err(e)) => {
            let cls = e.split(|c| c == '(' || c == ' ' || c == '{').next().unwrap_or("?").to_string();
            ctx.violation(&format!("merge-refused-same-id-operands/{}", cls), json!({"err": e, "order": order, "in": d()}));
            None
        }
        Err(p) => {
            ctx.panic_violation("Pset::merge", &p, json!({"order": order, "in": d()}));
            None
        }
    }
}

fn path_of(v: &[u32]) -> DerivationPath {
    DerivationPath::from(v.iter().map(|i| ChildNumber::from(*i)).collect::<Vec<_>>())
}

pub fn run(ctx: &mut Ctx) {
    ctx.seen("exhaustive_subspaces", "C14: all k! merge orders x both groupings per family (k <= 4); all 7 xpub key-source pair classes x both directions");
    let n = ctx.budget(6_000, 250_000);
    ctx.phase("families", n, |ctx, k| {
        let mut anc = extractable_pset(&mut ctx.rng, if k % 2 == 0 { P(1, 6) } else { P(1, 2) });
        // UTXO fields stay with the ancestor and there are no lock-time conflicts
        for i in anc.inputs_mut() {
            if k % 2 == 0 {
                i.required_time_locktime = None;
            } else {
                i.required_height_locktime = None;
            }
        }
        let Ok(id0) = anc.unique_id() else {
            ctx.count("ancestor-without-unique-id");
            return;
        };
        let anc_raw = raw_of(&anc);
        let nd = ctx.rng.gen_range(2..=4usize);
        // pool of edits; optional-field edits are unique per (kind, target)
        let mut pool: Vec<(Update, usize, usize, u64)> = Vec::new();
        let mut taken: HashSet<(Update, usize)> = HashSet::new();
        for _ in 0..ctx.rng.gen_range(1..=8) {
            let u = if ctx.rng.gen_range(0..8) == 0 { gen::pick(&mut ctx.rng, &MERGE_ONLY_UPDATES).clone() } else { gen::pick(&mut ctx.rng, &UPDATES).clone() };
            let ii = if anc.n_inputs() > 0 { ctx.rng.gen_range(0..anc.n_inputs()) } else { 0 };
            let oi = if anc.n_outputs() > 0 { ctx.rng.gen_range(0..anc.n_outputs()) } else { 0 };
            if is_optional(&u) {
                let target = if matches!(u, Update::OutputExplicitProofs | Update::OutputScripts | Update::OutputTapInternalKey | Update::OutputBlinderIndex | Update::OutputBlindingKey) { oi } else { ii };
                if !taken.insert((u.clone(), target)) {
                    continue;
                }
            }
            pool.push((u, ii, oi, ctx.rng.gen()));
        }
        let mut parts: Vec<Pset> = vec![anc.clone(); nd];
        let mut applied: Vec<Vec<String>> = vec![vec![]; nd];
        // every (map, key) any descendant has added so far, with its value: two different edits that
        // happen to produce the same key with different values (e.g. two unknown pairs with an
        // empty key and the same type byte) are *conflicting*, not "disjoint or identical",
        // additions; such an edit is dropped
        let mut added: std::collections::HashMap<(usize, Vec<u8>), Vec<u8>> = std::collections::HashMap::new();
        for (u, ii, oi, seed) in &pool {
            // each edit goes to a non-empty random subset of descendants (identical material)
            let mask = ctx.rng.gen_range(1..(1u32 << nd));
            for di in 0..nd {
                if mask & (1 << di) == 0 {
                    continue;
                }
                let mut trial = parts[di].clone();
                let mut r = rand_chacha::ChaCha20Rng::seed_from_u64(*seed);
                if !apply_update_at(&mut r, &mut trial, u, *ii, *oi) {
                    continue;
                }
                // a pure addition with respect to the ancestor and an unchanged id
                if !missing_pairs(&raw_of(&trial), &anc_raw).is_empty() {
                    continue;
                }
                if trial.unique_id().ok() != Some(id0) {
                    ctx.count("edit-changes-id(skipped; see C08)");
                    continue;
                }
                // disjoint or identical with what the other descendants added
                let tr = raw_of(&trial);
                let mut conflict = false;
                let mut fresh: Vec<((usize, Vec<u8>), Vec<u8>)> = Vec::new();
                for (mi, m) in tr.maps.iter().enumerate() {
                    for (kk, vv) in m {
                        if combined_rule(mi, kk) {
                            continue;
                        }
                        let in_ancestor = anc_raw.maps.get(mi).map_or(false, |am| am.iter().any(|(ak, av)| ak == kk && av == vv));
                        if in_ancestor {
                            continue;
                        }
                        match added.get(&(mi, kk.clone())) {
                            Some(v0) if v0 != vv => conflict = true,
                            Some(_) => {}
                            None => fresh.push(((mi, kk.clone()), vv.clone())),
                        }
                    }
                }
                if conflict {
                    ctx.count("edit-conflicts-with-another-descendant(skipped)");
                    continue;
                }
                for (k2, v2) in fresh {
                    added.insert(k2, v2);
                }
                parts[di] = trial;
                applied[di].push(format!("{:?}@in{}/out{}", u, ii, oi));
                ctx.count(&format!("edit/{:?}", u));
            }
        }
        let d = || json!({"ancestor": hex_short(&serialize(&anc)), "descendants": parts.iter().map(|p| hex_short(&serialize(p))).collect::<Vec<_>>(), "edits": applied});
        if k < 6 {
            ctx.sample(&format!("family-{}", k), json!({"descendants": nd, "edits": applied}));
        }
        let raws: Vec<RawPset> = parts.iter().map(raw_of).collect();
        let mut results: Vec<(Vec<usize>, bool, Pset)> = Vec::new();
        for order in permutations(nd) {
            for left in [true, false] {
                if nd == 2 && !left {
                    continue;
                }
                ctx.eval();
                let Some(m) = merge_all(ctx, &parts, &order, left, &d) else { continue };
                // id kept
                ctx.check(m.unique_id().ok() == Some(id0), "merge-changed-unique-id", &d);
                // nothing lost
                let mr = raw_of(&m);
                for (di, r) in raws.iter().enumerate() {
                    for (mi, key) in missing_pairs(&mr, r) {
                        let cls = key_class(&m, mi, &key);
                        ctx.violation(&format!("merge-lost-pair/{}", cls), json!({"operand": di, "map": mi, "key": hex_short(&key), "order": order, "left_fold": left, "in": d()}));
                    }
                }
                // combined-rule globals
                let want_mod = parts.iter().map(|p| p.global.tx_data.tx_modifiable.unwrap_or(0)).fold(0, |a, b| a | b);
                ctx.check(m.global.tx_data.tx_modifiable.unwrap_or(0) == want_mod, "tx_modifiable!=OR", &d);
                ctx.check(m.global.version == parts.iter().map(|p| p.global.version).max().unwrap(), "version!=max", &d);
                results.push((order.clone(), left, m));
            }
        }
        // order / grouping insensitivity
        if let Some((o0, l0, first)) = results.first() {
            let b0 = serialize(first);
            for (o, l, m) in results.iter().skip(1) {
                if *m != *first || serialize(m) != b0 {
                    // which map class differs
                    let (ra, rb) = (raw_of(first), raw_of(m));
                    // same pairs in another order (e.g. the scalar list) unless a differing pair is found
                    let mut cls = "same-pairs-in-different-order".to_string();
                    'outer: for mi in 0..ra.maps.len().min(rb.maps.len()) {
                        for (kk, v) in &ra.maps[mi] {
                            if !rb.maps[mi].iter().any(|(k2, v2)| k2 == kk && v2 == v) {
                                cls = key_class(first, mi, kk);
                                break 'outer;
                            }
                        }
                        for (kk, v) in &rb.maps[mi] {
                            if !ra.maps[mi].iter().any(|(k2, v2)| k2 == kk && v2 == v) {
                                cls = key_class(first, mi, kk);
                                break 'outer;
                            }
                        }
                    }
                    ctx.violation(&format!("merge-result-depends-on-order/{}", cls), json!({"order_a": o0, "left_a": l0, "order_b": o, "left_b": l, "a": hex_short(&b0), "b": hex_short(&serialize(m)), "in": d()}));
                    break;
                }
            }
        }
        ctx.shape(("family", nd, pool.iter().map(|p| format!("{:?}", p.0)).collect::<Vec<_>>()));
    });

    // ---- different unique ids are refused
    let n = ctx.budget(1_500, 40_000);
    ctx.phase("different-ids", n, |ctx, _| {
        ctx.eval();
        let a = extractable_pset(&mut ctx.rng, P(1, 6));
        let mut b = a.clone();
        // change identifying data
        let changed = match ctx.rng.gen_range(0..3) {
            0 if b.n_outputs() > 0 => {
                let mut s = b.outputs_mut()[0].script_pubkey.to_bytes();
                s.push(0x51);
                b.outputs_mut()[0].script_pubkey = elements::Script::from(s);
                true
            }
            1 if b.n_inputs() > 0 => {
                b.inputs_mut()[0].previous_txid = elements::Txid::from_byte_array(gen::arr32(&mut ctx.rng));
                true
            }
            _ => {
                b.global.tx_data.version = b.global.tx_data.version.wrapping_add(1);
                true
            }
        };
        use elements::hashes::Hash;
        if !changed || a.unique_id().is_err() || b.unique_id().is_err() || a.unique_id().ok() == b.unique_id().ok() {
            return;
        }
        let mut m = a.clone();
        match guard(|| m.merge(b.clone())) {
            Ok(Err(_)) => ctx.count("different-ids-refused"),
            Ok(Ok(())) => ctx.violation("merge-accepted-different-unique-ids", json!({"a": hex_short(&serialize(&a)), "b": hex_short(&serialize(&b))})),
            Err(p) => ctx.panic_violation("Pset::merge", &p, json!({"a": hex_short(&serialize(&a)), "b": hex_short(&serialize(&b))})),
        }
        ctx.shape(("diffid", a.n_inputs(), a.n_outputs()));
    });

    // ---- global xpub key-source reconciliation table, all pair classes, both directions
    let n = ctx.budget(3_000, 100_000);
    ctx.phase("xpub-key-sources", n, |ctx, k| {
        ctx.eval();
        let base = extractable_pset(&mut ctx.rng, P(1, 8));
        if base.unique_id().is_err() {
            return;
        }
        let x = gp::xpub(&mut ctx.rng);
        let l1 = ctx.rng.gen_range(0..=6usize);
        let p1: Vec<u32> = (0..l1).map(|_| ctx.rng.gen()).collect();
        let mut f1 = [0u8; 4];
        ctx.rng.fill(&mut f1);
        let mut f2 = [0u8; 4];
        ctx.rng.fill(&mut f2);
        if f1 == f2 {
            f2[0] ^= 1;
        }
        // class of the second key source relative to the first
        let class = ["equal", "longer-with-first-as-suffix", "shorter-suffix-of-first", "same-path-other-fingerprint", "same-length-different", "longer-unrelated", "shorter-unrelated"][(k % 7) as usize];
        let (p2, fp2): (Vec<u32>, [u8; 4]) = match class {
            "equal" => (p1.clone(), f1),
            "longer-with-first-as-suffix" => {
                let extra = ctx.rng.gen_range(1..=3);
                let mut v: Vec<u32> = (0..extra).map(|_| ctx.rng.gen()).collect();
                v.extend(&p1);
                (v, f2)
            }
            "shorter-suffix-of-first" => {
                if p1.is_empty() {
                    return;
                }
                let keep = ctx.rng.gen_range(0..p1.len());
                (p1[p1.len() - keep..].to_vec(), f2)
            }
            "same-path-other-fingerprint" => (p1.clone(), f2),
            "same-length-different" => {
                if p1.is_empty() {
                    return;
                }
                let mut v = p1.clone();
                let i = ctx.rng.gen_range(0..v.len());
                v[i] ^= 1;
                (v, if ctx.rng.gen_range(0..2) == 0 { f1 } else { f2 })
            }
            "longer-unrelated" => {
                let mut v: Vec<u32> = (0..l1 + ctx.rng.gen_range(1..=3)).map(|_| ctx.rng.gen()).collect();
                if !p1.is_empty() && v[v.len() - l1..] == p1[..] {
                    let last = v.len() - 1;
                    v[last] ^= 1;
                }
                if p1.is_empty() {
                    return; // every path has the empty path as suffix
                }
                (v, f2)
            }
            _ => {
                if p1.len() < 2 {
                    return;
                }
                let l2 = ctx.rng.gen_range(1..p1.len());
                let mut v: Vec<u32> = p1[p1.len() - l2..].to_vec();
                v[0] ^= 1; // no longer a suffix
                (v, f2)
            }
        };
        let ks1 = (Fingerprint::from(f1), path_of(&p1));
        let ks2 = (Fingerprint::from(fp2), path_of(&p2));
        let mut a = base.clone();
        a.global.xpub.insert(x, ks1.clone());
        let mut b = base.clone();
        b.global.xpub.insert(x, ks2.clone());
        // documented table
        let expected: Option<(Fingerprint, DerivationPath)> = match class {
            "equal" => Some(ks1.clone()),
            "longer-with-first-as-suffix" => Some(ks2.clone()),
            "shorter-suffix-of-first" => Some(ks1.clone()),
            _ => None, // conflict
        };
        for (dir, (mut left, right)) in [("a<-b", (a.clone(), b.clone())), ("b<-a", (b.clone(), a.clone()))] {
            let d = || json!({"class": class, "direction": dir, "first": format!("{:?}", ks1), "second": format!("{:?}", ks2)});
            match guard(|| left.merge(right.clone())) {
                Ok(Ok(())) => match &expected {
                    Some(e) => {
                        let got = left.global.xpub.get(&x);
                        ctx.check(got == Some(e), &format!("xpub-key-source-reconciled-wrongly/{}/{}", class, dir), || json!({"expected": format!("{:?}", e), "observed": format!("{:?}", got), "in": d()}));
                    }
                    None => ctx.violation(&format!("xpub-key-source-conflict-not-reported/{}/{}", class, dir), json!({"result": format!("{:?}", left.global.xpub.get(&x)), "in": d()})),
                },
                Ok(Err(e)) => {
                    ctx.check(expected.is_none(), &format!("xpub-merge-refused-where-reconcilable/{}/{}", class, dir), || json!({"err": format!("{:?}", e), "in": d()}));
                }
                Err(p) => ctx.panic_violation(&format!("Pset::merge[xpub {} {}]", class, dir), &p, d()),
            }
            ctx.count(&format!("xpub/{}", class));
        }
        ctx.shape(("xpub", class, l1, p2.len()));
    });
}
