//! C17 — segwit address checksums detect every one- and two-character corruption.
use super::c06::{params_of};
use crate::gen;
use crate::refmodel::addr::{self, RPayload, CHARSET, NETS};
use crate::rt::{guard, Ctx};
use elements::address::Address;
use rand::Rng;
use serde_json::json;
use std::str::FromStr;

/// does anything accept this string?
fn accepted_by(s: &str, blinded_codec: bool) -> Vec<&'static str> {
    let mut v = Vec::new();
    if Address::from_str(s).is_ok() {
        v.push("from_str");
    }
    for i in 0..3 {
        if Address::parse_with_params(s, params_of(i)).is_ok() {
            v.push(NETS[i].name);
        }
    }
    if blinded_codec && elements::blech32::decode::SegwitHrpstring::new(s).is_ok() {
        v.push("blech32::SegwitHrpstring::new");
    }
    v
}

fn probe(ctx: &mut Ctx, orig: &str, s: &str, blinded: bool, class: &str, positions: &[usize]) {
    ctx.eval();
    // history dimension: the corrupted string usually arrives after the valid one has been
    // parsed on the same thread (any state the parser keeps must not make it more lenient)
    if ctx.n_evals() % 8 == 0 {
        let _ = guard(|| accepted_by(orig, blinded));
        ctx.count("valid-address-parsed-immediately-before-corrupted-one");
    }
    // ... and sometimes the corrupted text sits in the very buffer the valid one was parsed from
    // (an input field edited in place): same address, same length, other content
    if ctx.n_evals() % 64 == 1 && orig.len() == s.len() {
        let mut buf = String::with_capacity(orig.len());
        buf.push_str(orig);
        let first = guard(|| accepted_by(&buf, blinded));
        buf.clear();
        buf.push_str(s);
        match guard(|| accepted_by(&buf, blinded)) {
            Ok(acc) => {
                if !acc.is_empty() && first.is_ok() {
                    ctx.violation(&format!("corruption-accepted/{}/edited-in-place", class), json!({"original": orig, "corrupted": s, "positions": positions, "accepted_by": acc}));
                }
            }
            Err(p) => ctx.panic_violation("address-parse", &p, json!({"string": s})),
        }
        ctx.count("corrupted-text-in-the-buffer-of-the-valid-one");
    }
    match guard(|| accepted_by(s, blinded)) {
        Ok(acc) => {
            if !acc.is_empty() {
                ctx.violation(
                    &format!("corruption-accepted/{}", class),
                    json!({"original": orig, "corrupted": s, "positions": positions, "accepted_by": acc}),
                );
            }
        }
        Err(p) => ctx.panic_violation("address-parse", &p, json!({"string": s})),
    }
}

/// representative addresses: (description, version, program length, blinded)
const REPS: [(&str, u8, usize, bool); 9] = [
    ("bech32-v0-20", 0, 20, false),
    ("bech32-v0-32", 0, 32, false),
    ("bech32m-v1-32", 1, 32, false),
    ("bech32m-v2-2", 2, 2, false),
    ("bech32m-v16-40", 16, 40, false),
    ("blech32-v0-20", 0, 20, true),
    ("blech32-v0-32", 0, 32, true),
    ("blech32m-v1-32", 1, 32, true),
    ("blech32m-v16-40", 16, 40, true),
];

fn rep_address(r: &mut gen::Rg, rep: usize, net: usize) -> (String, bool) {
    let (_, v, l, blinded) = REPS[rep];
    let prog = gen::bytes(r, l);
    let key = if blinded { Some(gen::public_key(r).serialize()) } else { None };
    (addr::address(&NETS[net], &RPayload::Wit(v, prog), key.as_ref()), blinded)
}

fn data_start(s: &str) -> usize {
    s.rfind('1').unwrap() + 1
}

pub fn run(ctx: &mut Ctx) {
    // exhaustive single substitutions: every representative x 3 networks, every data position
    // (witness version character included), every one of the 31 other symbols; lower and upper case
    ctx.seen("exhaustive_subspaces", "C17: all single substitutions (every data position x 31 symbols, both cases) of 9 representatives x 3 networks; all double substitutions of the listed representatives; all one- and two-position alphanumeric HRP substitutions");
    ctx.phase("single-substitutions", 27, |ctx, k| {
        let (rep, net) = ((k % 9) as usize, (k / 9) as usize);
        let (s, blinded) = rep_address(&mut ctx.rng, rep, net);
        ctx.check(!accepted_by(&s, blinded).is_empty(), "reference-address-rejected", || json!({"address": s}));
        let ds = data_start(&s);
        let class = format!("single/{}", REPS[rep].0);
        if net == 0 {
            ctx.sample(&format!("representative-{}", REPS[rep].0), json!({"address": s, "network": NETS[net].name}));
        }
        for upper in [false, true] {
            let base = if upper { s.to_ascii_uppercase() } else { s.clone() };
            let bytes = base.as_bytes();
            for pos in ds..bytes.len() {
                for c in CHARSET.iter() {
                    let c = if upper { c.to_ascii_uppercase() } else { *c };
                    if c == bytes[pos] {
                        continue;
                    }
                    let mut m = bytes.to_vec();
                    m[pos] = c;
                    probe(ctx, &base, std::str::from_utf8(&m).unwrap(), blinded, &class, &[pos]);
                }
            }
        }
        ctx.add("single-substitution-addresses", 1);
        ctx.shape((rep, net, "single"));
    });

    // exhaustive double substitutions. quick: three short representatives on one network each;
    // thorough: all representatives on all networks. One case = one (address, first position).
    let quick_reps: [(usize, usize); 3] = [(3, 0), (0, 1), (5, 2)];
    let all: Vec<(usize, usize)> = if ctx.quick() { quick_reps.to_vec() } else { (0..9).flat_map(|r| (0..3).map(move |n| (r, n))).collect() };
    // fixed addresses per (rep, net), derived from the seed, independent of sharding
    let mut addrs = Vec::new();
    {
        use rand::SeedableRng;
        let mut r = rand_chacha::ChaCha20Rng::seed_from_u64(ctx.seed ^ 0xc17);
        for (rep, net) in &all {
            addrs.push(rep_address(&mut r, *rep, *net));
        }
    }
    let maxlen = addrs.iter().map(|(s, _)| s.len() - data_start(s)).max().unwrap_or(0);
    ctx.phase("double-substitutions", (all.len() * maxlen) as u64, |ctx, k| {
        let ai = (k as usize) / maxlen;
        let p1 = (k as usize) % maxlen;
        let (s, blinded) = &addrs[ai];
        let ds = data_start(s);
        let bytes = s.as_bytes();
        if ds + p1 >= bytes.len() {
            return;
        }
        let class = format!("double/{}", REPS[all[ai].0].0);
        let pos1 = ds + p1;
        let mut n = 0u64;
        for pos2 in pos1 + 1..bytes.len() {
            for c1 in CHARSET.iter() {
                if *c1 == bytes[pos1] {
                    continue;
                }
                for c2 in CHARSET.iter() {
                    if *c2 == bytes[pos2] {
                        continue;
                    }
                    let mut m = bytes.to_vec();
                    m[pos1] = *c1;
                    m[pos2] = *c2;
                    probe(ctx, s, std::str::from_utf8(&m).unwrap(), *blinded, &class, &[pos1, pos2]);
                    n += 1;
                }
            }
        }
        ctx.add("double-substitutions", n);
        ctx.shape((ai, p1, "double"));
    });

    // sampled: fresh random addresses of every supported shape, random single / double substitutions
    let n = ctx.budget(1_500, 40_000);
    ctx.phase("sampled", n, |ctx, k| {
        let net = (k % 3) as usize;
        let blinded = (k / 3) % 2 == 1;
        let v = ctx.rng.gen_range(0..=16u8);
        let l = if v == 0 { *gen::pick(&mut ctx.rng, &[20usize, 32]) } else { ctx.rng.gen_range(2..=40) };
        let prog = gen::bytes(&mut ctx.rng, l);
        let key = if blinded { Some(gen::public_key(&mut ctx.rng).serialize()) } else { None };
        let s = addr::address(&NETS[net], &RPayload::Wit(v, prog), key.as_ref());
        ctx.check(!accepted_by(&s, blinded).is_empty(), "reference-address-rejected", || json!({"address": s}));
        let ds = data_start(&s);
        let bytes = s.as_bytes();
        let class = format!("sampled/{}{}", if v == 0 { "v0" } else { "v1+" }, if blinded { "/blinded" } else { "" });
        for j in 0..400 {
            let mut m = bytes.to_vec();
            let p1 = ctx.rng.gen_range(ds..bytes.len());
            let mut pos = vec![p1];
            m[p1] = CHARSET[(CHARSET.iter().position(|c| *c == m[p1]).unwrap() + ctx.rng.gen_range(1..32)) % 32];
            if j % 4 != 0 {
                let mut p2 = ctx.rng.gen_range(ds..bytes.len());
                while p2 == p1 {
                    p2 = ctx.rng.gen_range(ds..bytes.len());
                }
                m[p2] = CHARSET[(CHARSET.iter().position(|c| *c == m[p2]).unwrap() + ctx.rng.gen_range(1..32)) % 32];
                pos.push(p2);
            }
            probe(ctx, &s, std::str::from_utf8(&m).unwrap(), blinded, &class, &pos);
        }
        ctx.shape((v, l, blinded, net));
    });

    // human-readable part: every character replaced by every other alphanumeric (either case),
    // one and two positions, plus whole-HRP case changes
    ctx.phase("hrp-substitutions", 27, |ctx, k| {
        let (rep, net) = ((k % 9) as usize, (k / 9) as usize);
        let (s, blinded) = rep_address(&mut ctx.rng, rep, net);
        ctx.check(!accepted_by(&s, blinded).is_empty(), "reference-address-rejected", || json!({"address": s}));
        let ds = data_start(&s);
        let hrp_len = ds - 1;
        let alnum: Vec<u8> = (b'a'..=b'z').chain(b'A'..=b'Z').chain(b'0'..=b'9').collect();
        let class = format!("hrp/{}", REPS[rep].0);
        let bytes = s.as_bytes();
        for p1 in 0..hrp_len {
            for c1 in &alnum {
                if *c1 == bytes[p1] {
                    continue;
                }
                let mut m = bytes.to_vec();
                m[p1] = *c1;
                probe(ctx, &s, std::str::from_utf8(&m).unwrap(), blinded, &class, &[p1]);
                for p2 in p1 + 1..hrp_len {
                    for c2 in &alnum {
                        if *c2 == bytes[p2] {
                            continue;
                        }
                        let mut m2 = m.clone();
                        m2[p2] = *c2;
                        probe(ctx, &s, std::str::from_utf8(&m2).unwrap(), blinded, &class, &[p1, p2]);
                    }
                }
            }
        }
        // case changes of the whole HRP against a lower-case data part (and the reverse)
        let mut m = bytes.to_vec();
        for b in m[..hrp_len].iter_mut() {
            *b = b.to_ascii_uppercase();
        }
        probe(ctx, &s, std::str::from_utf8(&m).unwrap(), blinded, &format!("hrp-case/{}", REPS[rep].0), &[]);
        let mut m = s.to_ascii_uppercase().into_bytes();
        for b in m[..hrp_len].iter_mut() {
            *b = b.to_ascii_lowercase();
        }
        probe(ctx, &s, std::str::from_utf8(&m).unwrap(), blinded, &format!("hrp-case/{}", REPS[rep].0), &[]);
        // three-character HRPs: all three upper-cased one at a time is covered above; also
        // replace the separator by another character
        for c in [b'0', b'l', b'q'] {
            let mut m = bytes.to_vec();
            m[ds - 1] = c;
            probe(ctx, &s, std::str::from_utf8(&m).unwrap(), blinded, &format!("separator/{}", REPS[rep].0), &[ds - 1]);
        }
        ctx.shape((rep, net, "hrp"));
    });
}
