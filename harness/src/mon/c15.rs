//! C15 — taproot script trees commit every leaf and nothing else.
use crate::gen::{self, with_secp, Rg};
use crate::refmodel::tap::{self, Tree};
use crate::rt::{guard, hex, hex_short, Ctx};
use elements::hashes::Hash;
use elements::schnorr::{TapTweak, TweakedPublicKey};
use elements::secp256k1_zkp as zkp;
use elements::taproot::{ControlBlock, LeafVersion, TapNodeHash, TaprootBuilder, TaprootSpendInfo};
use elements::Script;
use rand::Rng;
use serde_json::json;

/// every valid DFS depth sequence with 1..=max leaves
pub fn all_depth_sequences(max: usize) -> Vec<Vec<usize>> {
    (1..=max).flat_map(tap::shapes).collect()
}

fn ref_output_key(internal: &zkp::XOnlyPublicKey, root: Option<&[u8; 32]>) -> (zkp::XOnlyPublicKey, zkp::Parity) {
    let t = tap::tweak_hash(&internal.serialize(), root);
    let scalar = zkp::Scalar::from_be_bytes(t).expect("tweak below the group order");
    with_secp(|s| internal.add_tweak(s, &scalar)).expect("tweak add")
}

fn leaf_nodes(r: &mut Rg, n: usize, dup: bool, hidden: bool) -> Vec<Tree> {
    let shared = gen::bytes(r, 7);
    (0..n)
        .map(|i| {
            if hidden && n > 1 && r.gen_range(0..4) == 0 {
                Tree::Hidden(gen::arr32(r))
            } else {
                let script = if dup && r.gen_range(0..2) == 0 {
                    shared.clone()
                } else {
                    let l = *gen::pick(r, &[1usize, 5, 34, 80, 253]);
                    let mut s = gen::bytes(r, l);
                    s.push(i as u8);
                    s
                };
                Tree::Leaf { script, ver: *gen::pick(r, &[0xc4u8, 0xc4, 0xc4, 0xc0, 0xc2, 0xfe]) }
            }
        })
        .collect()
}

fn build(depths: &[usize], nodes: &[Tree]) -> Result<TaprootBuilder, String> {
    let mut b = TaprootBuilder::new();
    for (d, n) in depths.iter().zip(nodes.iter()) {
        b = match n {
            Tree::Leaf { script, ver } => b.add_leaf_with_ver(*d, Script::from(script.clone()), LeafVersion::from_u8(*ver).unwrap()),
            Tree::Hidden(h) => b.add_hidden(*d, TapNodeHash::from_byte_array(*h)),
            _ => unreachable!(),
        }
        .map_err(|e| format!("{:?}", e))?;
    }
    Ok(b)
}

fn check_spend_info(ctx: &mut Ctx, info: &TaprootSpendInfo, tree: &Tree, internal: &zkp::XOnlyPublicKey, keypair: Option<&zkp::Keypair>, what: &str, d: &dyn Fn() -> serde_json::Value) {
    let root = tree.hash();
    let (want_key, want_parity) = ref_output_key(internal, Some(&root));
    ctx.check(info.merkle_root().map(|r| r.to_byte_array()) == Some(root), &format!("merkle-root!=reference/{}", what), || json!({"expected": hex(&root), "in": d()}));
    ctx.check(info.output_key().into_inner() == want_key && info.output_key_parity() == want_parity, &format!("output-key!=reference/{}", what), || json!({"expected": hex(&want_key.serialize()), "observed": hex(&info.output_key().into_inner().serialize()), "in": d()}));
    if let Some(kp) = keypair {
        let tweaked = with_secp(|s| kp.tap_tweak(s, info.merkle_root()));
        let (pk, parity) = tweaked.public_parts();
        ctx.check(pk == info.output_key() && parity == info.output_key_parity(), "tweaked-keypair-public-part!=output-key", d);
        // the secret key really is the key of the output key
        let sk = tweaked.to_inner().secret_key();
        let derived = with_secp(|s| zkp::PublicKey::from_secret_key(s, &sk)).x_only_public_key().0;
        ctx.check(derived == want_key, "tweaked-secret-key-does-not-match-output-key", d);
    }
    let out_key = info.output_key();
    let leaves = tree.leaves();
    // group by (script, ver) to handle duplicates: the control block must match one occurrence
    for (li, leaf) in leaves.iter().enumerate() {
        ctx.eval();
        let sv = (Script::from(leaf.script.clone()), LeafVersion::from_u8(leaf.ver).unwrap());
        let Some(cb) = info.control_block(&sv) else {
            ctx.violation(&format!("no-control-block-for-leaf/{}", what), json!({"leaf": li, "in": d()}));
            continue;
        };
        let occurrences: Vec<&tap::LeafInfo> = leaves.iter().filter(|l| l.script == leaf.script && l.ver == leaf.ver).collect();
        let ser = cb.serialize();
        let depth = (ser.len() - 33) / 32;
        let matching = occurrences.iter().find(|l| l.depth == depth && l.path.iter().zip(ser[33..].chunks(32)).all(|(a, b)| a[..] == *b));
        ctx.check(matching.is_some(), &format!("control-block-path!=reference/{}", what), || json!({"leaf": li, "cb": hex_short(&ser), "expected_depths": occurrences.iter().map(|l| l.depth).collect::<Vec<_>>(), "in": d()}));
        ctx.check(ser.len() == 33 + 32 * depth && cb.size() == ser.len() && (ser.len() - 33) % 32 == 0, "control-block-size!=33+32*depth", || json!({"size": cb.size(), "len": ser.len()}));
        ctx.check(occurrences.iter().any(|l| l.depth == depth), &format!("control-block-depth-not-a-leaf-depth/{}", what), || json!({"leaf": li, "depth": depth}));
        // a (script, version) pair that occurs several times: `control_block` is documented to return
        // the shortest path, and the script map must hold the path of every occurrence, each of which
        // gives a verifying control block of the length its depth implies
        let min_depth = occurrences.iter().map(|l| l.depth).min().unwrap();
        ctx.check(depth == min_depth, &format!("control-block-not-the-shortest-of-the-occurrences/{}", what), || json!({"leaf": li, "depth": depth, "occurrence_depths": occurrences.iter().map(|l| l.depth).collect::<Vec<_>>(), "in": d()}));
        if leaves.iter().position(|l| l.script == leaf.script && l.ver == leaf.ver) == Some(li) {
            let want_paths: std::collections::BTreeSet<Vec<[u8; 32]>> = occurrences.iter().map(|l| l.path.clone()).collect();
            let got_paths: std::collections::BTreeSet<Vec<[u8; 32]>> = info
                .as_script_map()
                .get(&sv)
                .map(|set| set.iter().map(|b| b.as_inner().iter().map(|h| h.to_byte_array()).collect()).collect())
                .unwrap_or_default();
            ctx.check(got_paths == want_paths, &format!("script-map-paths!=occurrences/{}", what), || {
                json!({"leaf": li, "occurrences": occurrences.len(), "expected_paths": want_paths.len(), "stored_paths": got_paths.len(),
                       "expected_depths": want_paths.iter().map(|p| p.len()).collect::<Vec<_>>(), "stored_depths": got_paths.iter().map(|p| p.len()).collect::<Vec<_>>(), "in": d()})
            });
            if let Some(set) = info.as_script_map().get(&sv) {
                for b in set.iter() {
                    ctx.eval();
                    let cbx = ControlBlock { internal_key: cb.internal_key, output_key_parity: cb.output_key_parity, leaf_version: cb.leaf_version, merkle_branch: b.clone() };
                    let okx = with_secp(|s| cbx.verify_taproot_commitment(s, &out_key, &sv.0));
                    ctx.check(okx && cbx.size() == 33 + 32 * b.as_inner().len(), &format!("stored-path-does-not-verify/{}", what), || json!({"leaf": li, "path_len": b.as_inner().len(), "in": d()}));
                }
            }
            if occurrences.len() > 1 {
                ctx.count("duplicate-leaf-groups-checked");
            }
        }
        ctx.check(ser[0] == (leaf.ver | if want_parity == zkp::Parity::Odd { 1 } else { 0 }) && ser[1..33] == internal.serialize(), "control-block-layout-wrong", || json!({"cb": hex_short(&ser), "leaf_version": leaf.ver}));
        match ControlBlock::from_slice(&ser) {
            Ok(back) => {
                ctx.check(back == cb, "control-block-from_slice(serialize)!=self", || json!({"cb": hex_short(&ser)}));
            }
            Err(e) => ctx.violation(&format!("control-block-does-not-survive-serialization/depth{}", if depth >= 127 { depth.to_string() } else { "<127".into() }), json!({"err": format!("{:?}", e), "depth": depth, "in": d()})),
        }
        let ok = with_secp(|s| cb.verify_taproot_commitment(s, &out_key, &sv.0));
        ctx.check(ok, &format!("control-block-does-not-verify/{}", what), || json!({"leaf": li, "cb": hex_short(&ser), "in": d()}));
        // negatives
        let neg = |ctx: &mut Ctx, name: &str, cb2: &ControlBlock, key: &TweakedPublicKey, script: &Script| {
            ctx.eval();
            let bad = with_secp(|s| cb2.verify_taproot_commitment(s, key, script));
            ctx.check(!bad, &format!("commitment-verifies-with-{}", name), || json!({"leaf": li, "in": d()}));
        };
        let mut other_script = leaf.script.clone();
        other_script.push(0x51);
        neg(ctx, "another-script", &cb, &out_key, &Script::from(other_script));
        let mut cb2 = cb.clone();
        cb2.leaf_version = LeafVersion::from_u8(if leaf.ver == 0xc4 { 0xc0 } else { 0xc4 }).unwrap();
        neg(ctx, "another-leaf-version", &cb2, &out_key, &sv.0);
        let mut cb3 = cb.clone();
        cb3.output_key_parity = if cb.output_key_parity == zkp::Parity::Even { zkp::Parity::Odd } else { zkp::Parity::Even };
        neg(ctx, "flipped-parity", &cb3, &out_key, &sv.0);
        if depth > 0 {
            let mut s2 = ser.clone();
            let k = 33 + ctx.rng.gen_range(0..depth * 32);
            s2[k] ^= 1 << ctx.rng.gen_range(0..8);
            if let Ok(cb4) = ControlBlock::from_slice(&s2) {
                neg(ctx, "altered-sibling-path", &cb4, &out_key, &sv.0);
            }
            if let Ok(cb5) = ControlBlock::from_slice(&ser[..ser.len() - 32]) {
                neg(ctx, "shortened-path", &cb5, &out_key, &sv.0);
            }
        }
        let mut s3 = ser.clone();
        s3.extend_from_slice(&gen::arr32(&mut ctx.rng));
        if let Ok(cb6) = ControlBlock::from_slice(&s3) {
            neg(ctx, "extended-path", &cb6, &out_key, &sv.0);
        }
        let other_key = TweakedPublicKey::new(gen::public_key(&mut ctx.rng).x_only_public_key().0);
        neg(ctx, "another-output-key", &cb, &other_key, &sv.0);
        let mut cb7 = cb.clone();
        cb7.internal_key = gen::public_key(&mut ctx.rng).x_only_public_key().0;
        neg(ctx, "another-internal-key", &cb7, &out_key, &sv.0);
        ctx.count("control-blocks-checked");
    }
}

pub fn run(ctx: &mut Ctx) {
    // ---- all tree shapes up to 7 (quick) / 9 (thorough) leaves
    let maxl = if ctx.quick() { 7 } else { 9 };
    let shapes = all_depth_sequences(maxl);
    ctx.max("exhaustive_max_leaves", maxl as u64);
    ctx.seen("exhaustive_subspaces", "C15: every full binary tree shape up to the leaf bound (x3 leaf variants); every depth sequence up to the length bound over 0..=len (accepted iff valid)");
    ctx.phase("all-shapes", shapes.len() as u64 * 3, |ctx, k| {
        let depths = &shapes[(k / 3) as usize];
        let variant = k % 3; // 0 distinct scripts, 1 duplicates allowed, 2 hidden nodes allowed
        let nodes = leaf_nodes(&mut ctx.rng, depths.len(), variant == 1, variant == 2);
        let tree = tap::from_dfs(depths, nodes.clone());
        let kp = with_secp(|s| zkp::Keypair::from_secret_key(s, &gen::secret_key(&mut ctx.rng)));
        let internal = kp.x_only_public_key().0;
        ctx.eval();
        let d = || json!({"depths": depths, "leaves": nodes.iter().map(|n| format!("{:?}", n).chars().take(90).collect::<String>()).collect::<Vec<_>>(), "internal_key": hex(&internal.serialize())});
        let info = match guard(|| build(depths, &nodes).and_then(|b| with_secp(|s| b.finalize(s, internal)).map_err(|e| format!("{:?}", e)))) {
            Ok(Ok(i)) => i,
            Ok(Err(e)) => {
                ctx.violation(&format!("valid-tree-refused/{}", e.split('(').next().unwrap_or("?")), json!({"err": e, "in": d()}));
                return;
            }
            Err(p) => {
                ctx.panic_violation("TaprootBuilder", &p, d());
                return;
            }
        };
        if k < 9 {
            ctx.sample(&format!("tree-{}", k), json!({"depths": depths, "variant": variant, "root": hex(&tree.hash())}));
        }
        check_spend_info(ctx, &info, &tree, &internal, Some(&kp), ["distinct", "duplicates", "hidden"][variant as usize], &d);
        ctx.shape((depths.clone(), variant));
        // address / script constructors agree with the output key
        let spk = with_secp(|s| Script::new_v1_p2tr(s, internal, info.merkle_root()));
        let mut want = vec![0x51, 0x20];
        want.extend_from_slice(&info.output_key().into_inner().serialize());
        ctx.check(spk.as_bytes() == &want[..], "new_v1_p2tr!=OP_1<output-key>", d);
    });

    // ---- every depth sequence of length <= 5 (quick) / 6 (thorough) over 0..=len: accepted iff valid
    let maxlen = if ctx.quick() { 5 } else { 6 };
    let mut seqs: Vec<Vec<usize>> = Vec::new();
    for len in 1..=maxlen {
        let base = len + 1;
        for code in 0..(base as u64).pow(len as u32) {
            let mut c = code;
            let s: Vec<usize> = (0..len).map(|_| { let d = (c % base as u64) as usize; c /= base as u64; d }).collect();
            seqs.push(s);
        }
    }
    ctx.phase("all-depth-sequences", seqs.len() as u64, |ctx, k| {
        let depths = &seqs[k as usize];
        ctx.eval();
        let valid = tap::valid_dfs_depths(depths);
        let nodes = leaf_nodes(&mut ctx.rng, depths.len(), false, false);
        let internal = gen::public_key(&mut ctx.rng).x_only_public_key().0;
        let res = guard(|| build(depths, &nodes).and_then(|b| with_secp(|s| b.finalize(s, internal)).map(|_| ()).map_err(|e| format!("{:?}", e))));
        match res {
            Ok(r) => {
                if valid {
                    ctx.check(r.is_ok(), "valid-depth-sequence-refused", || json!({"depths": depths, "err": format!("{:?}", r)}));
                    ctx.count("valid-sequences");
                } else {
                    ctx.check(r.is_err(), "invalid-depth-sequence-accepted", || json!({"depths": depths}));
                    ctx.count("invalid-sequences");
                    if let Err(e) = &r {
                        ctx.seen("refusal_classes", e.split('(').next().unwrap_or("?"));
                    }
                }
            }
            Err(p) => ctx.panic_violation("TaprootBuilder", &p, json!({"depths": depths})),
        }
        ctx.shape(("seq", depths.clone()));
    });

    // ---- depth limit: chains to depth 126..=128 accepted, 129 refused
    ctx.phase("depth-limit", 8, |ctx, k| {
        let depth = [1usize, 64, 126, 127, 128, 128, 129, 130][k as usize];
        ctx.eval();
        let internal = gen::public_key(&mut ctx.rng).x_only_public_key().0;
        let script = gen::bytes(&mut ctx.rng, 10);
        // a leaf at `depth` with hidden siblings all the way up
        let hs: Vec<[u8; 32]> = (0..depth).map(|_| gen::arr32(&mut ctx.rng)).collect();
        let res = guard(|| {
            let mut b = TaprootBuilder::new().add_leaf(depth, Script::from(script.clone())).map_err(|e| format!("{:?}", e))?;
            for (i, h) in hs.iter().enumerate() {
                b = b.add_hidden(depth - i, TapNodeHash::from_byte_array(*h)).map_err(|e| format!("{:?}", e))?;
            }
            with_secp(|s| b.finalize(s, internal)).map_err(|e| format!("{:?}", e))
        });
        match res {
            Ok(Ok(info)) => {
                ctx.check(depth <= 128, "over-deep-tree-accepted", || json!({"depth": depth}));
                // reference tree: leaf with hidden siblings
                let mut t = Tree::Leaf { script: script.clone(), ver: 0xc4 };
                for h in hs.iter() {
                    t = Tree::Node(Box::new(t), Box::new(Tree::Hidden(*h)));
                }
                let d = || json!({"depth": depth});
                check_spend_info(ctx, &info, &t, &internal, None, &format!("chain-depth-{}", depth), &d);
            }
            Ok(Err(e)) => {
                ctx.check(depth > 128, &format!("tree-of-depth-{}-refused", depth), || json!({"depth": depth, "err": e}));
            }
            Err(p) => ctx.panic_violation("TaprootBuilder", &p, json!({"depth": depth})),
        }
        ctx.shape(("depth", depth));
    });

    // ---- the same limit for hidden nodes: two hidden siblings at depth D, then one leaf at each
    // depth D-1 .. 1 (every leaf stays within the limit when D = 129)
    ctx.phase("depth-limit-hidden-nodes", 5, |ctx, k| {
        let depth = [2usize, 127, 128, 129, 130][k as usize];
        ctx.eval();
        let internal = gen::public_key(&mut ctx.rng).x_only_public_key().0;
        let (h1, h2) = (gen::arr32(&mut ctx.rng), gen::arr32(&mut ctx.rng));
        let scripts: Vec<Vec<u8>> = (1..depth).map(|i| { let mut s = gen::bytes(&mut ctx.rng, 6); s.extend_from_slice(&(i as u16).to_le_bytes()); s }).collect();
        let res = guard(|| {
            let mut b = TaprootBuilder::new()
                .add_hidden(depth, TapNodeHash::from_byte_array(h1))
                .map_err(|e| format!("{:?}", e))?
                .add_hidden(depth, TapNodeHash::from_byte_array(h2))
                .map_err(|e| format!("{:?}", e))?;
            for (i, sc) in scripts.iter().enumerate() {
                b = b.add_leaf(depth - 1 - i, Script::from(sc.clone())).map_err(|e| format!("{:?}", e))?;
            }
            with_secp(|s| b.finalize(s, internal)).map_err(|e| format!("{:?}", e))
        });
        match res {
            Ok(Ok(info)) => {
                ctx.check(depth <= 128, "over-deep-tree-accepted/hidden-nodes", || json!({"depth": depth}));
                let mut t = Tree::Node(Box::new(Tree::Hidden(h1)), Box::new(Tree::Hidden(h2)));
                for sc in scripts.iter() {
                    t = Tree::Node(Box::new(t), Box::new(Tree::Leaf { script: sc.clone(), ver: 0xc4 }));
                }
                let d = || json!({"hidden_depth": depth});
                if depth <= 128 {
                    check_spend_info(ctx, &info, &t, &internal, None, &format!("hidden-depth-{}", depth), &d);
                }
            }
            Ok(Err(e)) => {
                ctx.check(depth > 128, &format!("tree-with-hidden-nodes-at-depth-{}-refused", depth), || json!({"depth": depth, "err": e}));
            }
            Err(p) => ctx.panic_violation("TaprootBuilder", &p, json!({"hidden_depth": depth})),
        }
        ctx.shape(("hidden-depth", depth));
    });

    // ---- Huffman trees
    let n = ctx.budget(4_000, 150_000);
    ctx.phase("huffman", n, |ctx, k| {
        ctx.eval();
        let len = if k == 0 { 0 } else { ctx.rng.gen_range(1..=12) };
        let style = k % 6;
        let weights: Vec<u32> = (0..len)
            .map(|i| match style {
                0 => ctx.rng.gen_range(0..10),
                1 => 1,
                2 => *gen::pick(&mut ctx.rng, &[0u32, 0, 1, u32::MAX, u32::MAX - 1, u32::MAX - 2, 5]),
                3 => 1u32 << ctx.rng.gen_range(0..31),
                4 => i as u32,
                _ => ctx.rng.gen(),
            })
            .collect();
        let scripts: Vec<Vec<u8>> = (0..len).map(|i| { let mut s = gen::bytes(&mut ctx.rng, 6); s.push(i as u8); s }).collect();
        let internal = gen::public_key(&mut ctx.rng).x_only_public_key().0;
        let input: Vec<(u32, Script)> = weights.iter().cloned().zip(scripts.iter().map(|s| Script::from(s.clone()))).collect();
        let d = || json!({"weights": weights, "scripts": scripts.iter().map(|s| hex(s)).collect::<Vec<_>>()});
        let res = guard(|| with_secp(|s| TaprootSpendInfo::with_huffman_tree(s, internal, input.clone())));
        match res {
            Ok(Ok(info)) => {
                ctx.check(len > 0, "huffman-accepts-empty-input", d);
                // depths from the control blocks
                let mut depths = Vec::new();
                let out_key = info.output_key();
                for s in &scripts {
                    let sv = (Script::from(s.clone()), LeafVersion::default());
                    match info.control_block(&sv) {
                        Some(cb) => {
                            depths.push((cb.serialize().len() - 33) / 32);
                            ctx.check(with_secp(|sp| cb.verify_taproot_commitment(sp, &out_key, &sv.0)), "huffman-control-block-does-not-verify", d);
                        }
                        None => {
                            ctx.violation("huffman-leaf-missing", d());
                            return;
                        }
                    }
                }
                // heavier never strictly deeper than lighter
                for i in 0..len {
                    for j in 0..len {
                        if weights[i] > weights[j] && depths[i] > depths[j] {
                            ctx.violation("huffman-heavier-leaf-deeper-than-lighter", json!({"heavy": {"weight": weights[i], "depth": depths[i]}, "light": {"weight": weights[j], "depth": depths[j]}, "in": d()}));
                            return;
                        }
                    }
                }
                // Kraft equality: a full binary tree
                let kraft: f64 = depths.iter().map(|d| 0.5f64.powi(*d as i32)).sum();
                ctx.check((kraft - 1.0).abs() < 1e-9, "huffman-tree-not-full", || json!({"depths": depths, "in": d()}));
                // output key matches a reference tree assembled from the paths
                let (want_key, _) = ref_output_key(&internal, info.merkle_root().map(|r| r.to_byte_array()).as_ref());
                ctx.check(info.output_key().into_inner() == want_key, "huffman-output-key!=tweak(internal,root)", d);
                ctx.shape(("huff", len, style, depths.iter().max().cloned()));
            }
            Ok(Err(e)) => {
                ctx.check(len == 0, "huffman-refuses-non-empty-input", || json!({"err": format!("{:?}", e), "in": d()}));
            }
            Err(p) => ctx.panic_violation("with_huffman_tree", &p, d()),
        }
    });

    // ---- key-path only
    ctx.phase("key-spend", ctx.budget(200, 5000), |ctx, _| {
        ctx.eval();
        let kp = with_secp(|s| zkp::Keypair::from_secret_key(s, &gen::secret_key(&mut ctx.rng)));
        let internal = kp.x_only_public_key().0;
        let root = if ctx.rng.gen_range(0..2) == 0 { None } else { Some(gen::arr32(&mut ctx.rng)) };
        let info = with_secp(|s| TaprootSpendInfo::new_key_spend(s, internal, root.map(TapNodeHash::from_byte_array)));
        let (want, par) = ref_output_key(&internal, root.as_ref());
        ctx.check(info.output_key().into_inner() == want && info.output_key_parity() == par, "key-spend-output-key!=reference", || json!({"root": root.map(|r| hex(&r))}));
        let tweaked = with_secp(|s| kp.tap_tweak(s, root.map(TapNodeHash::from_byte_array)));
        ctx.check(tweaked.public_parts().0.into_inner() == want, "key-spend-tweaked-keypair!=output-key", || json!({}));
        ctx.shape(("keyspend", root.is_some()));
    });
}
