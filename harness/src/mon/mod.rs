use crate::rt::Ctx;
pub mod c18;
pub mod c19;

pub fn run(prop: &str, ctx: &mut Ctx) -> bool {
    match prop {
        "C18" => c18::run(ctx),
        "C19" => c19::run(ctx),
        _ => return false,
    }
    true
}
