//! C16 — scripts built by the builder parse back exactly; templates and addresses agree.
use super::c06::params_of;
use crate::gen;
use crate::refmodel::script::{self as rs, Ins};
use crate::rt::{guard, hex_short, Ctx};
use elements::address::Address;
use elements::opcodes;
use elements::script::{Builder, Instruction};
use elements::Script;
use rand::Rng;
use serde_json::json;
use std::str::FromStr;

#[derive(Clone, Debug)]
enum BOp {
    Opcode(u8),
    Int(i64),
    ScriptInt(i64),
    Slice(Vec<u8>),
    Key(bool),
    Verify,
}

fn fold(op: u8) -> Option<u8> {
    match op {
        0x87 => Some(0x88),
        0x9c => Some(0x9d),
        0xac => Some(0xad),
        0xae => Some(0xaf),
        0xc1 => Some(0xc2),
        _ => None,
    }
}

fn int_class(r: &mut gen::Rg) -> i64 {
    match r.gen_range(0..14) {
        0 => 0,
        1 => -1,
        2 => r.gen_range(1..=16),
        3 => 17,
        4 => -2,
        5 => *gen::pick(r, &[127i64, 128, 129, 255, 256, -127, -128, -129, -255, -256]),
        6 => *gen::pick(r, &[32767i64, 32768, 65535, 65536, -32767, -32768, -32769]),
        7 => *gen::pick(r, &[8388607i64, 8388608, -8388607, -8388608, 16777215, 16777216]),
        8 => *gen::pick(r, &[2147483647i64, -2147483647, 2147483646]),
        9 => *gen::pick(r, &[2147483648i64, -2147483648, 4294967295, 4294967296, -4294967296]),
        10 => *gen::pick(r, &[i64::MAX, i64::MIN + 1, i64::MAX - 1, 1 << 40, -(1 << 55)]),
        11 => r.gen::<i32>() as i64,
        12 => r.gen::<i64>().max(i64::MIN + 1) >> r.gen_range(0..63),
        _ => r.gen_range(-300..300),
    }
}

fn gen_program(r: &mut gen::Rg, big: bool) -> Vec<BOp> {
    let n = r.gen_range(0..=40);
    let mut v = Vec::new();
    for _ in 0..n {
        let op = match r.gen_range(0..12) {
            0 | 1 => {
                // non-push opcodes only: 0x4f..=0xff
                let o = match r.gen_range(0..3) {
                    0 => *gen::pick(r, &[0x87u8, 0x9c, 0xac, 0xae, 0xc1, 0x88, 0x69, 0xad]),
                    _ => r.gen_range(0x4f..=0xffu8),
                };
                BOp::Opcode(o)
            }
            2 | 3 => BOp::Int(int_class(r)),
            4 => BOp::ScriptInt(int_class(r)),
            5 | 6 | 7 => {
                let l = match r.gen_range(0..12) {
                    0 => 0,
                    1 => 1,
                    2 => 75,
                    3 => 76,
                    4 => 255,
                    5 => 256,
                    6 if big => 65535,
                    7 if big => 65536,
                    8 => 77,
                    _ => r.gen_range(2..75),
                };
                BOp::Slice(gen::bytes(r, l))
            }
            8 => BOp::Key(r.gen_range(0..2) == 0),
            _ => BOp::Verify,
        };
        v.push(op);
    }
    v
}

fn lib_ins(s: &Script, minimal: bool) -> Vec<Result<Ins, String>> {
    let it = if minimal { s.instructions_minimal() } else { s.instructions() };
    it.map(|r| match r {
        Ok(Instruction::PushBytes(b)) => Ok(Ins::Push(b.to_vec())),
        Ok(Instruction::Op(o)) => Ok(Ins::Op(o.into_u8())),
        Err(e) => Err(format!("{:?}", e)),
    })
    .collect()
}

/// Predicates, from_script and the address round trip for one script.
fn check_templates(ctx: &mut Ctx, b: &[u8], origin: &str) {
    ctx.eval();
    let s = Script::from(b.to_vec());
    let wp = rs::witness_program(b);
    let checks: [(&str, bool, bool); 10] = [
        ("is_p2pkh", s.is_p2pkh(), rs::is_p2pkh(b)),
        ("is_p2sh", s.is_p2sh(), rs::is_p2sh(b)),
        ("is_p2pk", s.is_p2pk(), rs::is_p2pk(b)),
        ("is_witness_program", s.is_witness_program(), wp.is_some()),
        ("is_v0_p2wpkh", s.is_v0_p2wpkh(), matches!(wp, Some((0, p)) if p.len() == 20)),
        ("is_v0_p2wsh", s.is_v0_p2wsh(), matches!(wp, Some((0, p)) if p.len() == 32)),
        ("is_v1_p2tr", s.is_v1_p2tr(), matches!(wp, Some((1, p)) if p.len() == 32)),
        ("is_v1plus_p2witprog", s.is_v1plus_p2witprog(), matches!(wp, Some((v, _)) if v >= 1)),
        ("is_op_return", s.is_op_return(), rs::is_op_return(b)),
        ("is_provably_unspendable", s.is_provably_unspendable(), rs::is_provably_unspendable(b)),
    ];
    for (name, got, want) in checks {
        if got != want {
            let cls = match wp {
                Some((v, p)) => format!("witprog-v{}-len{}", v, p.len()),
                None => format!("len{}-first{:#04x}", b.len().min(46), b.first().cloned().unwrap_or(0)),
            };
            let cls = if b.len() >= 2 && (0x51..=0x60).contains(&b[0]) && b[1] < 2 && b.len() == b[1] as usize + 2 { format!("v1plus-program-len{}", b[1]) } else { cls };
            ctx.violation(&format!("template-predicate-wrong/{}/{}/library-says-{}", name, cls, got), json!({"script": hex_short(b), "library": got, "reference": want, "origin": origin}));
        }
    }
    // script -> address
    let net = b.len() % 3;
    let expected_some = rs::is_p2pkh(b) || rs::is_p2sh(b) || match wp {
        Some((0, p)) => p.len() == 20 || p.len() == 32,
        Some((_, _)) => true,
        None => false,
    };
    let ambiguous = matches!(wp, Some((0, p)) if p.len() != 20 && p.len() != 32);
    let a = match guard(|| Address::from_script(&s, None, params_of(net))) {
        Ok(a) => a,
        Err(p) => {
            ctx.panic_violation("Address::from_script", &p, json!({"script": hex_short(b)}));
            return;
        }
    };
    if !ambiguous {
        let shape = if b.len() >= 2 && (0x51..=0x60).contains(&b[0]) && b[1] < 2 { format!("v1plus-program-len{}", b[1]) } else { "other".to_string() };
        ctx.check(a.is_some() == expected_some, &format!("from_script-{}-on-{}/{}", if a.is_some() { "some" } else { "none" }, if expected_some { "template" } else { "non-template" }, shape), || {
            json!({"script": hex_short(b), "address": a.as_ref().map(|x| x.to_string()), "origin": origin})
        });
    } else {
        ctx.count("v0-nonstandard-length(either-answer-accepted)");
    }
    if let Some(a) = a {
        ctx.count("addresses-derived");
        let back = a.script_pubkey();
        ctx.check(back.as_bytes() == b, "address.script_pubkey()!=script", || json!({"script": hex_short(b), "back": hex_short(back.as_bytes()), "address": a.to_string()}));
        let text = a.to_string();
        match Address::from_str(&text) {
            Ok(p) => {
                ctx.check(p == a, "parse(address.to_string())!=address", || json!({"script": hex_short(b), "address": text}));
            }
            Err(e) => {
                // also for v0 programs of non-standard length: returning no address is fine
                // there, but an address that is returned must satisfy the round-trip clauses
                ctx.violation(if ambiguous { "derived-address-text-does-not-parse/v0-nonstandard-length" } else { "derived-address-text-does-not-parse" },
                    json!({"script": hex_short(b), "address": text, "error": format!("{:?}", e)}));
            }
        }
        // blinded variant too
        let key = gen::public_key(&mut ctx.rng);
        if let Some(ab) = Address::from_script(&s, Some(key), params_of(net)) {
            ctx.check(ab.script_pubkey().as_bytes() == b, "blinded-address.script_pubkey()!=script", || json!({"script": hex_short(b)}));
            match Address::from_str(&ab.to_string()) {
                Ok(p) => {
                    ctx.check(p == ab, "parse(blinded-address.to_string())!=address", || json!({"script": hex_short(b)}));
                }
                Err(e) => {
                    ctx.violation(if ambiguous { "derived-blinded-address-text-does-not-parse/v0-nonstandard-length" } else { "derived-blinded-address-text-does-not-parse" },
                        json!({"script": hex_short(b), "address": ab.to_string(), "error": format!("{:?}", e)}));
                }
            }
        }
    }
}

pub fn run(ctx: &mut Ctx) {
    // ---- builder programs
    let n = ctx.budget(30_000, 1_000_000);
    ctx.phase("builder-programs", n, |ctx, k| {
        let prog = gen_program(&mut ctx.rng, k % 50 == 0);
        ctx.eval();
        let key_c = elements::bitcoin::PublicKey::new(gen::public_key(&mut ctx.rng));
        let key_u = elements::bitcoin::PublicKey::new_uncompressed(key_c.inner);
        // model
        let mut want: Vec<Ins> = Vec::new();
        let mut want_bytes: Vec<u8> = Vec::new();
        let mut last_opcode: Option<u8> = None;
        let mut ints: Vec<(i64, Vec<u8>)> = Vec::new();
        let mut b = Builder::new();
        let res = guard(|| {
            for op in &prog {
                b = match op {
                    BOp::Opcode(o) => std::mem::take(&mut b).push_opcode(opcodes::All::from(*o)),
                    BOp::Int(n) => std::mem::take(&mut b).push_int(*n),
                    BOp::ScriptInt(n) => std::mem::take(&mut b).push_scriptint(*n),
                    BOp::Slice(d) => std::mem::take(&mut b).push_slice(d),
                    BOp::Key(c) => std::mem::take(&mut b).push_key(if *c { &key_c } else { &key_u }),
                    BOp::Verify => std::mem::take(&mut b).push_verify(),
                };
            }
        });
        if let Err(p) = res {
            ctx.panic_violation("script::Builder", &p, json!({"program": format!("{:?}", prog).chars().take(600).collect::<String>()}));
            return;
        }
        for op in &prog {
            match op {
                BOp::Opcode(o) => {
                    want.push(Ins::Op(*o));
                    want_bytes.push(*o);
                    last_opcode = Some(*o);
                }
                BOp::Int(n) => {
                    if *n == 0 {
                        want.push(Ins::Push(vec![]));
                        want_bytes.push(0);
                        last_opcode = Some(0);
                    } else if *n == -1 || (1..=16).contains(n) {
                        let o = (0x50 + *n) as u8;
                        want.push(Ins::Op(o));
                        want_bytes.push(o);
                        last_opcode = Some(o);
                    } else {
                        let d = rs::scriptnum(*n);
                        want_bytes.extend(rs::push(&d));
                        ints.push((*n, d.clone()));
                        want.push(Ins::Push(d));
                        last_opcode = None;
                    }
                }
                BOp::ScriptInt(n) => {
                    let d = rs::scriptnum(*n);
                    want_bytes.extend(rs::push(&d));
                    ints.push((*n, d.clone()));
                    want.push(Ins::Push(d));
                    last_opcode = None;
                }
                BOp::Slice(d) => {
                    want_bytes.extend(rs::push(d));
                    want.push(Ins::Push(d.clone()));
                    last_opcode = None;
                }
                BOp::Key(c) => {
                    let d = if *c { key_c.inner.serialize().to_vec() } else { key_u.inner.serialize_uncompressed().to_vec() };
                    want_bytes.extend(rs::push(&d));
                    want.push(Ins::Push(d));
                    last_opcode = None;
                }
                BOp::Verify => {
                    match last_opcode.and_then(fold) {
                        Some(v) => {
                            want.pop();
                            want_bytes.pop();
                            want.push(Ins::Op(v));
                            want_bytes.push(v);
                            last_opcode = Some(v);
                            ctx.count("verify-folded");
                        }
                        None => {
                            want.push(Ins::Op(0x69));
                            want_bytes.push(0x69);
                            last_opcode = Some(0x69);
                            ctx.count("verify-appended");
                        }
                    }
                }
            }
        }
        let s = b.into_script();
        let d = || json!({"program": format!("{:?}", prog).chars().take(800).collect::<String>(), "script": hex_short(s.as_bytes()), "expected_script": hex_short(&want_bytes)});
        let klass = |prog: &[BOp]| -> String {
            // coarse class of the first op at which the scripts diverge is too costly; use op-kind set
            let mut ks: Vec<&str> = prog.iter().map(|o| match o { BOp::Opcode(_) => "op", BOp::Int(_) => "int", BOp::ScriptInt(_) => "sint", BOp::Slice(_) => "slice", BOp::Key(_) => "key", BOp::Verify => "verify" }).collect();
            ks.sort();
            ks.dedup();
            ks.join("+")
        };
        let got = lib_ins(&s, false);
        let want_r: Vec<Result<Ins, String>> = want.iter().cloned().map(Ok).collect();
        // find the first diverging instruction to classify
        if got != want_r || s.as_bytes() != &want_bytes[..] {
            let i = got.iter().zip(want_r.iter()).position(|(a, b)| a != b).unwrap_or(got.len().min(want_r.len()));
            let what = match prog.get(i.min(prog.len().saturating_sub(1))) {
                Some(BOp::Slice(d)) => format!("slice-len{}", d.len()),
                Some(BOp::Int(n)) | Some(BOp::ScriptInt(n)) => format!("int-bytes{}", rs::scriptnum(*n).len()),
                Some(BOp::Verify) => "verify".to_string(),
                Some(BOp::Key(_)) => "key".to_string(),
                Some(BOp::Opcode(_)) => "opcode".to_string(),
                None => "empty".to_string(),
            };
            ctx.violation(&format!("built-script!=added-instructions/near-{}/{}", what, klass(&prog)), d());
        }
        // cross-check the reference parser on the same bytes (keeps the two models honest)
        let rp: Vec<Result<Ins, String>> = rs::parse(s.as_bytes()).into_iter().map(|r| r.map_err(|e| format!("{:?}", e))).collect();
        ctx.check(rp.iter().all(|r| r.is_ok()) && rp == got, "instructions()!=reference-parser", d);
        // minimal iteration: identical unless a single-byte push of 1..16 / 0x81 is present (documented)
        let has_small_single = want.iter().any(|i| matches!(i, Ins::Push(p) if p.len() == 1 && (p[0] == 0x81 || (1..=16).contains(&p[0]))));
        let gm = lib_ins(&s, true);
        if !has_small_single {
            ctx.check(gm == want_r, "instructions_minimal()!=added-instructions", d);
        } else {
            ctx.count("programs-with-op_n-representable-single-byte-push");
        }
        // integers read back
        for (n, dta) in &ints {
            let n = *n;
            ctx.eval();
            if dta.len() <= 4 {
                let r = elements::script::read_scriptint(dta);
                ctx.check(matches!(r, Ok(v) if v == n), &format!("read_scriptint(pushed)!=n/bytes{}", dta.len()), || json!({"n": n, "pushed": hex_short(dta), "read": format!("{:?}", r)}));
                ctx.count("scriptints-read-back");
            } else {
                ctx.check(elements::script::read_scriptint(dta).is_err(), "read_scriptint-accepts-more-than-4-bytes", || json!({"n": n}));
                ctx.check(rs::read_scriptnum_wide(dta) == Some(n as i128), "wide-scriptnum-encoding-wrong", || json!({"n": n, "pushed": hex_short(dta)}));
                ctx.count("wide-scriptints-checked");
            }
        }
        ctx.shape((klass(&prog), prog.len().min(12), has_small_single));
        if k < 10 {
            ctx.sample("builder-program", d());
        }
    });

    // ---- exhaustive neighbourhood: every length 0..=45, every first byte, every second byte
    ctx.seen("exhaustive_subspaces", "C16: every script length 0..=45 x every first byte x every second byte (3 014 656 scripts); every value of every byte of 8 exact templates; all witness versions x program lengths 0..=42");
    ctx.phase("neighbourhood-len-b0", 46 * 256, |ctx, k| {
        let len = (k / 256) as usize;
        let b0 = (k % 256) as u8;
        let filler = gen::bytes(&mut ctx.rng, 46);
        let mut n = 0;
        for b1 in 0..=255u8 {
            let mut s = filler[..len].to_vec();
            if len > 0 {
                s[0] = b0;
            }
            if len > 1 {
                s[1] = b1;
            } else if b1 > 0 {
                break;
            }
            // make the p2pkh / p2sh tails possible half of the time
            if b1 % 2 == 0 {
                if len == 25 {
                    s[2] = 0x14;
                    s[23] = 0x88;
                    s[24] = 0xac;
                }
                if len == 23 {
                    s[22] = 0x87;
                }
            }
            check_templates(ctx, &s, "neighbourhood");
            n += 1;
        }
        ctx.add("neighbourhood-scripts", n);
        ctx.shape(("nb", len, b0));
    });

    // ---- scripts at the size limit (a script longer than 10 000 bytes is provably unspendable)
    ctx.phase("size-limit-scripts", 12, |ctx, k| {
        let len = [9_999usize, 10_000, 10_001, 10_002][(k % 4) as usize];
        let mut s = gen::bytes(&mut ctx.rng, len);
        s[0] = match k / 4 {
            0 => 0x51,
            1 => 0x6a,
            _ => 0x00,
        };
        check_templates(ctx, &s, "size-limit");
        ctx.shape(("size-limit", len, s[0]));
    });

    // ---- every value of each fixed-position byte of the exact templates
    ctx.phase("template-byte-sweeps", 8, |ctx, k| {
        let h20 = gen::bytes(&mut ctx.rng, 20);
        let h32 = gen::bytes(&mut ctx.rng, 32);
        let base: Vec<u8> = match k {
            0 => [vec![0x76, 0xa9, 0x14], h20.clone(), vec![0x88, 0xac]].concat(),
            1 => [vec![0xa9, 0x14], h20.clone(), vec![0x87]].concat(),
            2 => [vec![0x00, 0x14], h20.clone()].concat(),
            3 => [vec![0x00, 0x20], h32.clone()].concat(),
            4 => [vec![0x51, 0x20], h32.clone()].concat(),
            5 => [vec![0x60, 0x28], gen::bytes(&mut ctx.rng, 40)].concat(),
            6 => [vec![0x52, 0x02], gen::bytes(&mut ctx.rng, 2)].concat(),
            _ => [vec![33u8], gen::bytes(&mut ctx.rng, 33), vec![0xac]].concat(),
        };
        check_templates(ctx, &base, "exact-template");
        for pos in 0..base.len() {
            for v in 0..=255u8 {
                let mut s = base.clone();
                s[pos] = v;
                check_templates(ctx, &s, "template-byte-sweep");
            }
        }
        // truncations and extensions
        for l in 0..base.len() {
            check_templates(ctx, &base[..l], "template-truncated");
        }
        for extra in 1..4 {
            let mut s = base.clone();
            s.extend(gen::bytes(&mut ctx.rng, extra));
            check_templates(ctx, &s, "template-extended");
        }
        ctx.shape(("sweep", k));
    });

    // ---- all witness programs: versions 0..=16, lengths 0..=42, through the constructor-free path
    ctx.phase("witness-program-grid", 17 * 43, |ctx, k| {
        let v = (k % 17) as u8;
        let l = (k / 17) as usize;
        let mut s = vec![if v == 0 { 0 } else { 0x50 + v }];
        s.extend(rs::push(&gen::bytes(&mut ctx.rng, l)));
        check_templates(ctx, &s, "witness-grid");
        if (2..=40).contains(&l) {
            let built = guard(|| Script::new_witness_program(bech32::Fe32::try_from(v).unwrap(), &s[2..]));
            if let Ok(b) = built {
                ctx.check(b.as_bytes() == &s[..], "new_witness_program!=reference-bytes", || json!({"version": v, "len": l}));
            }
        }
        ctx.shape(("wp", v, l));
    });
}
