//! C11 — asset and token ids follow the issuance derivation in every representation.
use crate::gen::{self, Rg};
use crate::refmodel::{merkle, ser, sha};
use crate::rt::{guard, hex, hex_short, Ctx};
use elements::encode::serialize;
use elements::hashes::Hash;
use elements::pset::{Input as PsetInput, PartiallySignedTransaction as Pset};
use elements::secp256k1_zkp as zkp;
use elements::{AssetEntropy, AssetId, AssetIssuance, ContractHash, OutPoint, Transaction, TxIn, TxOut, Txid};
use rand::Rng;
use serde_json::json;

fn ref_ids(i: &ser::RTxIn, raw: &ser::RIssuance) -> ([u8; 32], [u8; 32]) {
    let entropy = if raw.nonce == [0u8; 32] { merkle::entropy(&i.txid, i.vout, &raw.entropy) } else { raw.entropy };
    (merkle::asset_id(&entropy), merkle::token_id(&entropy, matches!(raw.amount, ser::RValue::Conf(_))))
}

// ---- restricted JSON value grammar with an independent canonical writer
#[derive(Clone, Debug)]
enum J {
    Null,
    Bool(bool),
    Int(i64),
    Str(String),
    Arr(Vec<J>),
    Obj(Vec<(String, J)>),
}

fn gen_str(r: &mut Rg) -> String {
    let n = r.gen_range(0..10);
    (0..n).map(|_| *gen::pick(r, b"abcdefghijklmnopqrstuvwxyzABCXYZ0123456789_-. ") as char).collect()
}

fn gen_j(r: &mut Rg, depth: u32) -> J {
    match r.gen_range(0..if depth == 0 { 4 } else { 7 }) {
        0 => J::Null,
        1 => J::Bool(r.gen()),
        2 => J::Int(match r.gen_range(0..4) {
            0 => 0,
            1 => r.gen_range(-1000..1000),
            2 => i64::MAX,
            _ => r.gen::<i64>() >> r.gen_range(0..63),
        }),
        3 => J::Str(gen_str(r)),
        4 => J::Arr((0..r.gen_range(0..4)).map(|_| gen_j(r, depth - 1)).collect()),
        _ => gen_obj(r, depth - 1),
    }
}

fn gen_obj(r: &mut Rg, depth: u32) -> J {
    let n = r.gen_range(0..6);
    let mut keys: Vec<String> = Vec::new();
    while keys.len() < n {
        let k = gen_str(r);
        if !keys.contains(&k) {
            keys.push(k);
        }
    }
    J::Obj(keys.into_iter().map(|k| (k, gen_j(r, depth))).collect())
}

fn canonical(j: &J, out: &mut String) {
    match j {
        J::Null => out.push_str("null"),
        J::Bool(b) => out.push_str(if *b { "true" } else { "false" }),
        J::Int(i) => out.push_str(&i.to_string()),
        J::Str(s) => {
            out.push('"');
            out.push_str(s);
            out.push('"');
        }
        J::Arr(a) => {
            out.push('[');
            for (i, x) in a.iter().enumerate() {
                if i > 0 {
                    out.push(',');
                }
                canonical(x, out);
            }
            out.push(']');
        }
        J::Obj(o) => {
            let mut o: Vec<&(String, J)> = o.iter().collect();
            o.sort_by(|a, b| a.0.as_bytes().cmp(b.0.as_bytes()));
            out.push('{');
            for (i, (k, v)) in o.iter().enumerate() {
                if i > 0 {
                    out.push(',');
                }
                out.push('"');
                out.push_str(k);
                out.push_str("\":");
                canonical(v, out);
            }
            out.push('}');
        }
    }
}

/// render with shuffled key order at every level and random insignificant whitespace
fn render(r: &mut Rg, j: &J, out: &mut String, ws: bool) {
    let sp = |r: &mut Rg, out: &mut String| {
        if ws {
            for _ in 0..r.gen_range(0..3) {
                out.push(*gen::pick(r, &[' ', '\n', '\t', '\r']));
            }
        }
    };
    match j {
        J::Arr(a) => {
            out.push('[');
            sp(r, out);
            for (i, x) in a.iter().enumerate() {
                if i > 0 {
                    out.push(',');
                    sp(r, out);
                }
                render(r, x, out, ws);
                sp(r, out);
            }
            out.push(']');
        }
        J::Obj(o) => {
            let mut idx: Vec<usize> = (0..o.len()).collect();
            for i in (1..idx.len()).rev() {
                let k = r.gen_range(0..=i);
                idx.swap(i, k);
            }
            out.push('{');
            sp(r, out);
            for (n, i) in idx.iter().enumerate() {
                if n > 0 {
                    out.push(',');
                    sp(r, out);
                }
                out.push('"');
                out.push_str(&o[*i].0);
                out.push('"');
                sp(r, out);
                out.push(':');
                sp(r, out);
                render(r, &o[*i].1, out, ws);
                sp(r, out);
            }
            out.push('}');
        }
        other => canonical(other, out),
    }
}

pub fn run(ctx: &mut Ctx) {
    let n = ctx.budget(30_000, 1_000_000);
    ctx.phase("issuance-ids", n, |ctx, k| {
        ctx.eval();
        let r = &mut ctx.rng;
        // input: outpoint class, pegin flag, issuance kind, amount variants
        let outpoint = match k % 6 {
            0 => OutPoint::null(),
            1 => OutPoint { txid: Txid::from_byte_array(gen::arr32(r)), vout: 0 },
            2 => OutPoint { txid: Txid::from_byte_array(gen::arr32(r)), vout: (1 << 30) - 1 },
            3 => OutPoint { txid: Txid::from_byte_array(gen::arr32(r)), vout: 1 },
            _ => OutPoint { txid: Txid::from_byte_array(gen::arr32(r)), vout: r.gen_range(0..(1u32 << 30)) },
        };
        let reissue = (k / 6) % 2 == 1;
        let (av, kv) = loop {
            let a = r.gen_range(0..3u8);
            let b = r.gen_range(0..3u8);
            if a != 0 || b != 0 {
                break (a, b);
            }
        };
        let is_pegin = !outpoint.is_null() && (k / 12) % 3 == 0 && !(outpoint.vout == (1 << 30) - 1);
        let txin = TxIn {
            previous_output: outpoint,
            is_pegin,
            script_sig: Default::default(),
            sequence: elements::Sequence(r.gen()),
            asset_issuance: AssetIssuance {
                asset_blinding_nonce: if reissue { gen::tweak(r) } else { zkp::ZERO_TWEAK },
                asset_entropy: gen::arr32(r),
                amount: gen::value_v(r, av),
                inflation_keys: gen::value_v(r, kv),
            },
            witness: Default::default(),
        };
        let ri = ser::rtxin(&txin);
        let raw = ser::rissuance_raw(&txin.asset_issuance);
        let (want_a, want_t) = ref_ids(&ri, &raw);
        let class = format!(
            "{}/{}{}/amount-{}",
            if reissue { "reissuance" } else { "new" },
            if outpoint.is_null() { "null-outpoint" } else { "outpoint" },
            if is_pegin { "+pegin" } else { "" },
            ["null", "explicit", "confidential"][av as usize]
        );
        let d = || json!({"txin": hex_short(&serialize(&txin)), "is_pegin": is_pegin, "class": class, "expected_asset": hex(&want_a), "expected_token": hex(&want_t)});
        // 1. transaction input
        let (a, t) = match guard(|| txin.issuance_ids()) {
            Ok(x) => x,
            Err(p) => {
                ctx.panic_violation("TxIn::issuance_ids", &p, d());
                return;
            }
        };
        ctx.check(a.to_byte_array() == want_a, &format!("TxIn-asset-id!=reference/{}", class), || json!({"observed": hex(&a.to_byte_array()), "in": d()}));
        ctx.check(t.to_byte_array() == want_t, &format!("TxIn-token-id!=reference/{}", class), || json!({"observed": hex(&t.to_byte_array()), "in": d()}));
        // 2. PSET input built from it
        let pin = PsetInput::from_txin(txin.clone());
        let (pa, pt) = pin.issuance_ids();
        ctx.check(pa.to_byte_array() == want_a && pt.to_byte_array() == want_t, &format!("pset-input-ids!=TxIn-ids/{}", class), || {
            json!({"pset_asset": hex(&pa.to_byte_array()), "pset_token": hex(&pt.to_byte_array()), "in": d()})
        });
        // 3. input of the transaction extracted from the PSET
        let tx = Transaction {
            version: 2,
            lock_time: elements::LockTime::ZERO,
            input: vec![txin.clone()],
            output: vec![TxOut::new_fee(1, gen::asset_id(&mut ctx.rng))],
        };
        match guard(|| Pset::from_tx(tx.clone()).extract_tx()) {
            Ok(Ok(ex)) => {
                let (ea, et) = ex.input[0].issuance_ids();
                ctx.check(ea.to_byte_array() == want_a && et.to_byte_array() == want_t, &format!("extracted-input-ids!=TxIn-ids/{}", class), || {
                    json!({"extracted_asset": hex(&ea.to_byte_array()), "extracted_token": hex(&et.to_byte_array()), "in": d()})
                });
            }
            Ok(Err(e)) => ctx.violation(&format!("from_tx-extract_tx-failed/{}", class), json!({"err": format!("{:?}", e), "in": d()})),
            Err(p) => ctx.panic_violation("from_tx/extract_tx", &p, d()),
        }
        // 3b. the same after an updater has put the explicit amounts next to the commitments
        // (what a blinder leaves behind): PSET input and extracted input still agree with the TxIn
        if av == 2 || kv == 2 {
            let res = guard(|| {
                let mut ps = Pset::from_tx(tx.clone());
                {
                    let i0 = &mut ps.inputs_mut()[0];
                    if i0.issuance_value_comm.is_some() {
                        i0.issuance_value_amount = Some(1 + (k % 1000));
                    }
                    if i0.issuance_inflation_keys_comm.is_some() {
                        i0.issuance_inflation_keys = Some(1 + (k % 7));
                    }
                }
                let ids = ps.inputs()[0].issuance_ids();
                (ids, ps.extract_tx())
            });
            match res {
                Ok(((pa, pt), Ok(ex))) => {
                    ctx.check(pa.to_byte_array() == want_a && pt.to_byte_array() == want_t, &format!("pset-input-ids!=TxIn-ids/explicit-next-to-commitment/{}", class), || {
                        json!({"pset_asset": hex(&pa.to_byte_array()), "pset_token": hex(&pt.to_byte_array()), "in": d()})
                    });
                    let (ea, et) = ex.input[0].issuance_ids();
                    ctx.check(ea.to_byte_array() == want_a && et.to_byte_array() == want_t, &format!("extracted-input-ids!=TxIn-ids/explicit-next-to-commitment/{}", class), || {
                        json!({"extracted_asset": hex(&ea.to_byte_array()), "extracted_token": hex(&et.to_byte_array()), "in": d()})
                    });
                    ctx.count("explicit-next-to-commitment-cases");
                }
                Ok((_, Err(e))) => ctx.violation(&format!("from_tx-extract_tx-failed/explicit-next-to-commitment/{}", class), json!({"err": format!("{:?}", e), "in": d()})),
                Err(p) => ctx.panic_violation("from_tx/extract_tx", &p, d()),
            }
        }
        // 4. the free-standing constructors agree with each other and the reference
        if !reissue {
            let ch = ContractHash::from_byte_array(txin.asset_issuance.asset_entropy);
            let e = AssetId::generate_asset_entropy(outpoint, ch);
            let we = merkle::entropy(&ri.txid, ri.vout, &raw.entropy);
            ctx.check(e.to_byte_array() == we, "generate_asset_entropy!=reference", d);
            ctx.check(AssetId::new_issuance(outpoint, ch).to_byte_array() == want_a, "new_issuance!=reference", d);
            let conf = av == 2;
            ctx.check(AssetId::new_reissuance_token(outpoint, ch, conf).to_byte_array() == want_t, "new_reissuance_token!=reference", d);
            ctx.check(AssetId::from_entropy(e).to_byte_array() == want_a, "from_entropy!=reference", d);
            for c in [false, true] {
                ctx.check(AssetId::reissuance_token_from_entropy(e, c).to_byte_array() == merkle::token_id(&we, c), "reissuance_token_from_entropy!=reference", d);
            }
        } else {
            let e = AssetEntropy::from_byte_array(txin.asset_issuance.asset_entropy);
            ctx.check(AssetId::from_entropy(e).to_byte_array() == want_a, "from_entropy!=reference/reissuance", d);
        }
        ctx.shape((class.clone(), kv));
        ctx.count(&format!("class/{}", class));
        if k < 12 {
            ctx.sample(&format!("issuance-{}", k), json!({"class": class, "asset": hex(&want_a), "token": hex(&want_t)}));
        }
    });

    let n = ctx.budget(8_000, 300_000);
    ctx.phase("json-contracts", n, |ctx, k| {
        ctx.eval();
        let obj = gen_obj(&mut ctx.rng, 3);
        let mut canon = String::new();
        canonical(&obj, &mut canon);
        let want = sha::sha256(canon.as_bytes());
        let mut hashes = Vec::new();
        let mut texts = Vec::new();
        for v in 0..4 {
            let mut s = String::new();
            render(&mut ctx.rng, &obj, &mut s, v >= 2);
            match guard(|| ContractHash::from_json_contract(&s)) {
                Ok(Ok(h)) => hashes.push(h.to_byte_array()),
                Ok(Err(e)) => {
                    ctx.violation("valid-json-contract-rejected", json!({"json": s, "err": e.to_string()}));
                    return;
                }
                Err(p) => {
                    ctx.panic_violation("ContractHash::from_json_contract", &p, json!({"json": s}));
                    return;
                }
            }
            texts.push(s);
        }
        ctx.check(hashes.iter().all(|h| *h == hashes[0]), "contract-hash-depends-on-key-order-or-whitespace", || json!({"renderings": texts, "hashes": hashes.iter().map(|h| hex(h)).collect::<Vec<_>>()}));
        ctx.check(hashes[0] == want, "contract-hash!=sha256(canonical-json)", || json!({"canonical": canon, "expected": hex(&want), "observed": hex(&hashes[0])}));
        fn depth(j: &J) -> usize {
            match j {
                J::Arr(a) => 1 + a.iter().map(depth).max().unwrap_or(0),
                J::Obj(o) => 1 + o.iter().map(|(_, v)| depth(v)).max().unwrap_or(0),
                _ => 0,
            }
        }
        ctx.shape(("json", depth(&obj), canon.len().min(200) / 10));
        if k < 4 {
            ctx.sample(&format!("contract-{}", k), json!({"rendering": texts[3], "canonical": canon}));
        }
    });
}
