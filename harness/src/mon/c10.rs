//! C10 — fallible public APIs are total: errors, never panics or unbounded allocation.
//!
//! Every call goes through `call`: boundary record (API, input length), panic capture,
//! allocation accounting. In the `checked` lane arithmetic overflow inside the
//! `elements` crate is an observable panic. In the sanitizer lanes (`miri`, `memcheck`,
//! `asan`) the same tables run with small budgets; `miri` skips everything that crosses
//! into libsecp (FFI).
use crate::alloc;
use crate::gen::blind::Dials;
use crate::gen::pset::{self as gp, P};
use crate::gen::{self, with_secp, Rg, TxDials};
use crate::mutate;
use crate::refmodel::addr::{self, RPayload, NETS};
use crate::refmodel::psetraw;
use crate::rt::{guard, hex_short, Ctx};
use elements::encode::{deserialize, serialize};
use elements::pset::PartiallySignedTransaction as Pset;
use elements::{Address, Script, Transaction, TxOut};
use rand::{Rng, SeedableRng};
use serde_json::json;
use std::collections::HashMap;
use std::str::FromStr;

const ALLOC_BASE: usize = 64 << 20;

fn ffi_ok(ctx: &Ctx) -> bool {
    ctx.lane != "miri"
}

/// One monitored library call.
pub fn call<T>(ctx: &mut Ctx, api: &str, input_len: usize, input_desc: &dyn Fn() -> serde_json::Value, f: impl FnOnce() -> T) -> Option<T> {
    ctx.eval();
    ctx.count(&format!("api/{}", api));
    let (res, usage) = alloc::track(|| guard(f));
    ctx.max("max_peak_alloc_bytes", usage.peak as u64);
    ctx.max("max_single_alloc_bytes", usage.largest as u64);
    let limit = ALLOC_BASE + 64 * input_len;
    if usage.largest > alloc::REFUSE || usage.peak > limit {
        ctx.violation(
            &format!("allocation-out-of-proportion/{}", api),
            json!({"api": api, "input_len": input_len, "peak": usage.peak, "largest_request": usage.largest, "limit": limit, "input": input_desc()}),
        );
    }
    match res {
        Ok(v) => Some(v),
        Err(p) => {
            let lane = ctx.lane.clone();
            let overflow = p.msg.contains("overflow");
            ctx.panic_violation(&format!("{}{}", api, if overflow && lane == "checked" { "[overflow-checks]" } else { "" }), &p, input_desc());
            None
        }
    }
}

macro_rules! dec {
    ($ctx:expr, $b:expr, $d:expr, $( $t:ty ),* ) => {
        $( { let r = call($ctx, concat!("deserialize::<", stringify!($t), ">"), $b.len(), $d, || deserialize::<$t>($b).map(|v| serialize(&v).len()).is_ok()); if r == Some(true) { $ctx.count(concat!("decoded/", stringify!($t))); } } )*
    };
}

/// scripts in and around the address templates: witness programs of every version opcode (incl.
/// OP_0 with non-standard lengths, OP_1NEGATE, OP_NOP) and push lengths 0..=42, exact or off by
/// a byte, p2pkh / p2sh shapes with a wrong byte
pub fn template_like_script(r: &mut gen::Rg) -> Vec<u8> {
    match r.gen_range(0..6) {
        0..=3 => {
            let ver = *gen::pick(r, &[0x00u8, 0x00, 0x51, 0x52, 0x60, 0x4f, 0x61, 0x50]);
            let l = r.gen_range(0..=42usize);
            let mut v = vec![ver, l as u8];
            let body = match r.gen_range(0..6) {
                0 => l.saturating_sub(1),
                1 => l + 1,
                _ => l,
            };
            v.extend(gen::bytes(r, body));
            v
        }
        4 => {
            let mut v = vec![0x76, 0xa9, 0x14];
            v.extend(gen::bytes(r, 20));
            v.extend_from_slice(&[0x88, 0xac]);
            let i = r.gen_range(0..v.len());
            if r.gen_range(0..2) == 0 {
                v[i] ^= 1 << r.gen_range(0..8);
            }
            v
        }
        _ => {
            let mut v = vec![0xa9, 0x14];
            v.extend(gen::bytes(r, 20));
            v.push(0x87);
            if r.gen_range(0..2) == 0 {
                v.truncate(r.gen_range(0..23));
            }
            v
        }
    }
}

/// accessors normally applied to a freshly decoded transaction
fn tx_accessors(ctx: &mut Ctx, t: &Transaction, d: &dyn Fn() -> serde_json::Value) {
    let n = serialize(t).len();
    call(ctx, "Transaction::{txid,wtxid,size,weight,vsize,discount_weight,discount_vsize}", n, d, || {
        (t.txid(), t.wtxid(), t.size(), t.weight(), t.vsize(), t.discount_weight(), t.discount_vsize(), t.has_witness(), t.is_coinbase())
    });
    call(ctx, "Transaction::{all_fees,fee_in}", n, d, || {
        let f = t.all_fees();
        f.keys().map(|a| t.fee_in(*a)).count()
    });
    for i in &t.input {
        call(ctx, "TxIn::{pegin_data,pegin_prevout,issuance_ids,outpoint_flag}", n, d, || {
            let pd = i.pegin_data().map(|p| (p.parse_tx().is_ok(), p.parse_merkle_proof().is_ok(), p.to_pegin_witness().len()));
            (pd, i.pegin_prevout(), i.issuance_ids(), i.outpoint_flag(), i.is_coinbase(), i.has_issuance())
        });
    }
    for o in &t.output {
        call(ctx, "TxOut::{is_null_data,is_pegout,pegout_data,is_fee,minimum_value}", n, d, || {
            (o.is_null_data(), o.is_pegout(), o.pegout_data().map(|p| p.extra_data.len()), o.is_fee(), o.minimum_value(), o.is_partially_blinded())
        });
    }
}

fn script_apis(ctx: &mut Ctx, b: &[u8], d: &dyn Fn() -> serde_json::Value) {
    let s = Script::from(b.to_vec());
    call(ctx, "Script::instructions", b.len(), d, || s.instructions().count());
    call(ctx, "Script::instructions_minimal", b.len(), d, || s.instructions_minimal().count());
    call(ctx, "Script::asm", b.len(), d, || s.asm().len());
    call(ctx, "Script::{Display,Debug,LowerHex}", b.len(), d, || format!("{} {:?} {:x}", s, s, s).len());
    call(ctx, "Script::is_*", b.len(), d, || {
        (s.is_p2sh(), s.is_p2pkh(), s.is_p2pk(), s.is_witness_program(), s.is_v0_p2wsh(), s.is_v0_p2wpkh(), s.is_v1_p2tr(), s.is_v1plus_p2witprog(), s.is_op_return(), s.is_provably_unspendable())
    });
    call(ctx, "Script::{to_p2sh,to_v0_p2wsh,script_hash,wscript_hash}", b.len(), d, || (s.to_p2sh().len(), s.to_v0_p2wsh().len(), s.script_hash(), s.wscript_hash()));
    call(ctx, "Address::from_script", b.len(), d, || Address::from_script(&s, None, &elements::AddressParams::ELEMENTS).map(|a| a.to_string().len()));
    call(ctx, "script::read_scriptint", b.len(), d, || elements::script::read_scriptint(b).is_ok());
    call(ctx, "script::read_scriptbool", b.len(), d, || elements::script::read_scriptbool(b));
    for size in [0usize, 1, 2, 4, 8, 9] {
        call(ctx, "script::read_uint", b.len(), d, || elements::script::read_uint(b, size).is_ok());
    }
}

fn slice_parsers(ctx: &mut Ctx, b: &[u8], d: &dyn Fn() -> serde_json::Value) {
    use elements::taproot::{ControlBlock, LeafVersion, TaprootMerkleBranch};
    if ffi_ok(ctx) {
        // parses the internal key through libsecp
        call(ctx, "ControlBlock::from_slice", b.len(), d, || ControlBlock::from_slice(b).map(|c| (c.size(), c.serialize().len())).is_ok());
    }
    call(ctx, "TaprootMerkleBranch::from_slice", b.len(), d, || TaprootMerkleBranch::from_slice(b).map(|m| m.serialize().len()).is_ok());
    call(ctx, "SchnorrSig::from_slice", b.len(), d, || elements::SchnorrSig::from_slice(b).map(|s| s.to_vec().len()).is_ok());
    if let Some(x) = b.first() {
        call(ctx, "LeafVersion::from_u8", 1, d, || LeafVersion::from_u8(*x).is_ok());
    }
    call(ctx, "elip100::AssetMetadata::deserialize", b.len(), d, || elements::pset::elip100::AssetMetadata::deserialize(b).is_ok());
    call(ctx, "elip100::TokenMetadata::deserialize", b.len(), d, || elements::pset::elip100::TokenMetadata::deserialize(b).is_ok());
    if ffi_ok(ctx) {
        // scalar range check is an FFI call
        call(ctx, "AssetBlindingFactor::from_slice", b.len(), d, || elements::confidential::AssetBlindingFactor::from_slice(b).is_ok());
        call(ctx, "ValueBlindingFactor::from_slice", b.len(), d, || elements::confidential::ValueBlindingFactor::from_slice(b).is_ok());
        call(ctx, "Value::from_commitment", b.len(), d, || elements::confidential::Value::from_commitment(b).is_ok());
        call(ctx, "Asset::from_commitment", b.len(), d, || elements::confidential::Asset::from_commitment(b).is_ok());
        call(ctx, "Nonce::from_commitment", b.len(), d, || elements::confidential::Nonce::from_commitment(b).is_ok());
    }
    call(ctx, "PeginData::from_pegin_witness", b.len(), d, || {
        // split the bytes into six items
        let items: Vec<Vec<u8>> = (0..6).map(|i| b.iter().skip(i).step_by(6).cloned().collect()).collect();
        let prev = elements::bitcoin::OutPoint::null();
        elements::PeginData::from_pegin_witness(&items, prev).map(|p| (p.parse_tx().is_ok(), p.parse_merkle_proof().is_ok())).is_ok()
    });
}

fn decoders(ctx: &mut Ctx, b: &[u8], d: &dyn Fn() -> serde_json::Value) {
    use elements::confidential::{Asset, Nonce, Value};
    use elements::dynafed::{FullParams, Params};
    use elements::pset::raw::{Key, Pair, ProprietaryKey};
    use elements::pset::{Input as PsetInput, Output as PsetOutput};
    use elements::{AssetIssuance, Block, BlockHeader, LockTime, OutPoint, Sequence, TxIn, TxInWitness, TxOutWitness};
    dec!(ctx, b, d, Vec<u8>, Vec<Vec<u8>>, Script, OutPoint, LockTime, Sequence, elements::locktime::Height, elements::locktime::Time, Key, Pair, ProprietaryKey, Params, FullParams, elements::Txid, elements::AssetId);
    // decoders whose success path builds curve points / proofs call into libsecp
    if ffi_ok(ctx) {
        dec!(ctx, b, d, TxIn, TxOut, TxInWitness, TxOutWitness, BlockHeader, Asset, Value, Nonce, AssetIssuance, PsetInput, PsetOutput);
        // values that get accessors applied
        if let Some(Ok(t)) = call(ctx, "deserialize::<Transaction>", b.len(), d, || deserialize::<Transaction>(b)) {
            ctx.count("decoded/Transaction");
            tx_accessors(ctx, &t, d);
            // verification with arbitrary spent outputs
            let spent: Vec<TxOut> = t.input.iter().map(|_| gen::txout(&mut ctx.rng, &TxDials { wit_mask: 0, ..TxDials::default() })).collect();
            call(ctx, "Transaction::verify_tx_amt_proofs[decoded]", b.len(), d, || with_secp(|s| t.verify_tx_amt_proofs(s, &spent)).is_ok());
            for o in t.output.iter().take(2) {
                let sk = gen::secret_key(&mut ctx.rng);
                call(ctx, "TxOut::unblind[decoded]", b.len(), d, || with_secp(|s| o.unblind(s, sk)).is_ok());
            }
        }
        if let Some(Ok(blk)) = call(ctx, "deserialize::<Block>", b.len(), d, || deserialize::<Block>(b)) {
            ctx.count("decoded/Block");
            call(ctx, "Block::{size,weight,block_hash}", b.len(), d, || (blk.size(), blk.weight(), blk.block_hash(), blk.header.calculate_dynafed_params_root()));
        }
        if let Some(Ok(h)) = call(ctx, "deserialize::<BlockHeader>[accessors]", b.len(), d, || deserialize::<BlockHeader>(b)) {
            call(ctx, "BlockHeader::{block_hash,calculate_dynafed_params_root,clear_witness}", b.len(), d, || {
                let mut h2 = h.clone();
                h2.clear_witness();
                (h.block_hash(), h.calculate_dynafed_params_root(), h.dynafed_current().map(|p| p.calculate_root()), h2.block_hash())
            });
        }
        if let Some(Ok(p)) = call(ctx, "deserialize::<PartiallySignedTransaction>", b.len(), d, || deserialize::<Pset>(b)) {
            ctx.count("decoded/Pset");
            pset_accessors(ctx, &p, b.len(), d);
        }
    } else {
        // FFI-free decoders only (Miri lane): raw PSET framing and plain structures
        dec!(ctx, b, d, elements::pset::raw::Pair);
    }
}

fn pset_accessors(ctx: &mut Ctx, p: &Pset, n: usize, d: &dyn Fn() -> serde_json::Value) {
    call(ctx, "Pset::{unique_id,extract_tx,locktime,sanity_check}", n, d, || (p.unique_id().is_ok(), p.extract_tx().is_ok(), p.locktime().is_ok(), p.sanity_check().is_ok()));
    call(ctx, "Pset::to_string", n, d, || p.to_string().len());
    for i in p.inputs().iter().take(3) {
        call(ctx, "pset::Input::{issuance_ids,asset_issuance,has_issuance,is_pegin}", n, d, || (i.issuance_ids(), i.asset_issuance(), i.has_issuance(), i.is_pegin(), i.get_abf().map(|r| r.is_ok())));
    }
    for o in p.outputs().iter().take(3) {
        call(ctx, "pset::Output::{to_txout,is_*_blinded}", n, d, || (o.to_txout(), o.is_marked_for_blinding(), o.is_partially_blinded(), o.is_fully_blinded(), o.get_abf().map(|r| r.is_ok())));
    }
    // blinding with odd / missing secrets
    let mut secrets: HashMap<usize, elements::TxOutSecrets> = HashMap::new();
    for i in 0..p.n_inputs().min(3) {
        if ctx.rng.gen_range(0..2) == 0 {
            secrets.insert(i + ctx.rng.gen_range(0..2), elements::TxOutSecrets::new(gen::asset_id(&mut ctx.rng), elements::confidential::AssetBlindingFactor::new(&mut ctx.rng), ctx.rng.gen(), elements::confidential::ValueBlindingFactor::new(&mut ctx.rng)));
        }
    }
    call(ctx, "Pset::surjection_inputs", n, d, || p.surjection_inputs(&secrets).is_ok());
    let seed: u64 = ctx.rng.gen();
    call(ctx, "Pset::blind_non_last[arbitrary]", n, d, || {
        let mut q = p.clone();
        let mut r = rand_chacha::ChaCha20Rng::seed_from_u64(seed);
        with_secp(|s| q.blind_non_last(&mut r, s, &secrets)).is_ok()
    });
    call(ctx, "Pset::blind_last[arbitrary]", n, d, || {
        let mut q = p.clone();
        let mut r = rand_chacha::ChaCha20Rng::seed_from_u64(seed);
        with_secp(|s| q.blind_last(&mut r, s, &secrets)).is_ok()
    });
}

fn string_apis(ctx: &mut Ctx, s: &str, d: &dyn Fn() -> serde_json::Value) {
    use elements::blech32::decode::{CheckedHrpstring, SegwitHrpstring, UncheckedHrpstring};
    use elements::blech32::{Blech32, Blech32m};
    let n = s.len();
    call(ctx, "blech32::UncheckedHrpstring::new", n, d, || UncheckedHrpstring::new(s).map(|u| (u.has_valid_checksum::<Blech32>(), u.has_valid_checksum::<Blech32m>())).is_ok());
    call(ctx, "blech32::CheckedHrpstring::new::<Blech32>", n, d, || CheckedHrpstring::new::<Blech32>(s).map(|c| c.byte_iter().count()).is_ok());
    call(ctx, "blech32::CheckedHrpstring::new::<Blech32m>", n, d, || CheckedHrpstring::new::<Blech32m>(s).map(|c| c.validate_segwit().is_ok()).is_ok());
    call(ctx, "blech32::SegwitHrpstring::new", n, d, || SegwitHrpstring::new(s).map(|c| (c.witness_version(), c.byte_iter().count(), c.has_valid_hrp())).is_ok());
    call(ctx, "blech32::SegwitHrpstring::new_bech32", n, d, || SegwitHrpstring::new_bech32(s).map(|c| c.byte_iter().count()).is_ok());
    call(ctx, "OutPoint::from_str", n, d, || elements::OutPoint::from_str(s).is_ok());
    call(ctx, "hash-newtypes::from_str", n, d, || (elements::Txid::from_str(s).is_ok(), elements::AssetId::from_str(s).is_ok(), elements::ContractHash::from_str(s).is_ok(), elements::ScriptHash::from_str(s).is_ok()));
    call(ctx, "LockTime/Sequence/Height/Time::from_str", n, d, || (elements::LockTime::from_str(s).is_ok(), elements::Sequence::from_str(s).is_ok(), elements::locktime::Height::from_str(s).is_ok(), elements::locktime::Time::from_str(s).is_ok()));
    call(ctx, "sighash-types::from_str", n, d, || (elements::EcdsaSighashType::from_str(s).is_ok(), elements::SchnorrSighashType::from_str(s).is_ok(), elements::pset::PsbtSighashType::from_str(s).is_ok()));
    call(ctx, "Script::from_hex", n, d, || (Script::from_hex(s).is_ok(), Script::from_hex_no_prefix(s).is_ok()));
    call(ctx, "ContractHash::from_json_contract", n, d, || elements::ContractHash::from_json_contract(s).is_ok());
    if ffi_ok(ctx) {
        call(ctx, "blinding-factors::from_str", n, d, || (elements::confidential::AssetBlindingFactor::from_str(s).is_ok(), elements::confidential::ValueBlindingFactor::from_str(s).is_ok()));
        call(ctx, "Address::from_str", n, d, || Address::from_str(s).map(|a| (a.to_string().len(), a.script_pubkey().len())).is_ok());
        for net in 0..3 {
            call(ctx, "Address::parse_with_params", n, d, || Address::parse_with_params(s, super::c06::params_of(net)).is_ok());
        }
        call(ctx, "Pset::from_str", n, d, || Pset::from_str(s).is_ok());
    }
}

fn mutate_string(r: &mut Rg, s: &str) -> String {
    let mut b = s.as_bytes().to_vec();
    match r.gen_range(0..8) {
        0 if !b.is_empty() => {
            let n = r.gen_range(0..b.len());
            b.truncate(n);
        }
        1 if !b.is_empty() => {
            let i = r.gen_range(0..b.len());
            b[i] = *gen::pick(r, b"qpzry9x8gf2tvdw0s3jn54khce6mua7l1QPZ0OIbio=/+-_ :[]{}\"");
        }
        2 => b.push(*gen::pick(r, b"1qQ0= ")),
        3 if !b.is_empty() => {
            let i = r.gen_range(0..b.len());
            b.remove(i);
        }
        4 => {
            // keep only the prefix up to and including the separator
            if let Some(p) = b.iter().rposition(|c| *c == b'1') {
                b.truncate(p + 1 + r.gen_range(0..3).min(b.len() - p - 1));
            }
        }
        5 if !b.is_empty() => {
            let i = r.gen_range(0..b.len());
            b[i] = b[i].to_ascii_uppercase();
        }
        6 => {
            let i = if b.is_empty() { 0 } else { r.gen_range(0..=b.len()) };
            b.insert(i, r.gen_range(0x20..0x7f));
        }
        _ => {
            for x in b.iter_mut() {
                if r.gen_range(0..30) == 0 {
                    *x = r.gen_range(0x20..0x7f);
                }
            }
        }
    }
    String::from_utf8_lossy(&b).into_owned()
}

pub fn run(ctx: &mut Ctx) {
    let sanitizer = matches!(ctx.lane.as_str(), "miri" | "memcheck" | "asan");
    let quick = ctx.quick();
    let miri = ctx.lane == "miri";
    let scale = move |q: u64, t: u64, s: u64| -> u64 {
        if miri {
            // the interpreter is ~3 orders of magnitude slower than native code
            s * 10
        } else if sanitizer {
            // valgrind / ASan: 1-2 orders of magnitude
            s * 400
        } else if quick {
            q
        } else {
            t
        }
    };

    // ---- byte decoders on random bytes, repository vectors, generated encodings and their mutants
    // (the interpreter would spend minutes scanning the repository for hex literals)
    let corpus = if miri { vec![vec![0x02u8, 0, 0, 0, 0, 1], vec![0u8; 40]] } else { crate::corpus::harvest() };
    let n = scale(12_000, 150_000, 40);
    ctx.phase("bytes", n, |ctx, k| {
        let mut marks: Vec<crate::refmodel::ser::Mark> = Vec::new();
        let (mut b, origin): (Vec<u8>, &str) = match k % 5 {
            0 => {
                let l = *gen::pick(&mut ctx.rng, &[0usize, 1, 2, 5, 9, 33, 34, 65, 100, 300]);
                (gen::bytes(&mut ctx.rng, l), "random")
            }
            1 => (corpus[ctx.rng.gen_range(0..corpus.len())].clone(), "corpus"),
            2 | 3 => {
                if ffi_ok(ctx) {
                    let (_, enc, m) = super::c01::gen_encoded(&mut ctx.rng, k / 5, false);
                    marks = m;
                    (enc, "generated")
                } else {
                    (gen::bytes(&mut ctx.rng, 40), "random")
                }
            }
            _ => {
                if ffi_ok(ctx) {
                    (serialize(&gp::pset(&mut ctx.rng, P(1, 3), 2, 2)), "pset")
                } else {
                    (b"pset\xff\x01\x02\x04\x02\x00\x00\x00\x00".to_vec(), "pset")
                }
            }
        };
        let rounds = if sanitizer { 2 } else { 4 };
        for round in 0..rounds {
            if round == 1 && !marks.is_empty() {
                // structure-aware: length fields set to boundary / huge values, flags, prefixes
                if let Some((m, label)) = mutate::structured(&mut ctx.rng, &b, &marks) {
                    b = m;
                    ctx.count(&format!("mutator/{}", label));
                }
            } else if round > 0 {
                let label = mutate::generic(&mut ctx.rng, &mut b);
                ctx.count(&format!("mutator/{}", label));
            }
            if b.len() > 200_000 {
                b.truncate(200_000);
            }
            let bb = b.clone();
            let d = || json!({"bytes": hex_short(&bb), "origin": origin});
            decoders(ctx, &bb, &d);
            ctx.shape(("bytes", origin, round, bb.len().min(400) / 8));
        }
        if k < 5 {
            ctx.sample(&format!("bytes-{}", origin), json!({"origin": origin, "bytes": hex_short(&b)}));
        }
    });

    // ---- length / count fields set to values between MAX_VEC_SIZE/size_of::<T>() and MAX_VEC_SIZE
    // with no payload behind them: the decoder must fail without reserving memory for them
    if ffi_ok(ctx) {
        let n = scale(3_000, 60_000, 6);
        ctx.phase("count-fields", n, |ctx, k| {
            let (name, enc, marks) = super::c01::gen_encoded(&mut ctx.rng, k, false);
            let cs_marks: Vec<&crate::refmodel::ser::Mark> = marks.iter().filter(|m| m.kind == crate::refmodel::ser::Kind::Cs).collect();
            if cs_marks.is_empty() {
                return;
            }
            for _ in 0..4 {
                let m = cs_marks[ctx.rng.gen_range(0..cs_marks.len())];
                let v: u64 = *gen::pick(&mut ctx.rng, &[10_000u64, 100_000, 166_667, 1_000_000, 3_999_999, 4_000_000, 4_000_001, 0x00ff_ffff, 0xffff_ffff, 1 << 40, u64::MAX]);
                let Some((_, w)) = mutate::read_cs(&enc[m.off..]) else { continue };
                let mut b = enc[..m.off].to_vec();
                b.extend(crate::refmodel::merkle::cs(v));
                if ctx.rng.gen_range(0..2) == 0 {
                    b.extend_from_slice(&enc[m.off + w..]);
                }
                let d = || json!({"type": name, "count_value": v, "bytes": hex_short(&b)});
                decoders(ctx, &b, &d);
                ctx.shape(("count", name, v.min(5_000_000)));
            }
        });
    }

    // ---- PSET value-level mutations: truncate / extend / empty the value of any pair
    if ffi_ok(ctx) {
        let n = scale(4_000, 60_000, 12);
        ctx.phase("pset-pair-values", n, |ctx, k| {
            let ps = gp::pset(&mut ctx.rng, if k % 2 == 0 { P(1, 2) } else { P(1, 1) }, 2, 2);
            let b = serialize(&ps);
            let Ok(raw) = psetraw::parse(&b) else { return };
            for _ in 0..6 {
                let mut m = raw.clone();
                let mi = ctx.rng.gen_range(0..m.maps.len());
                if m.maps[mi].is_empty() {
                    continue;
                }
                let pi = ctx.rng.gen_range(0..m.maps[mi].len());
                let key0 = m.maps[mi][pi].0[0];
                let v = &mut m.maps[mi][pi].1;
                let how = match ctx.rng.gen_range(0..6) {
                    0 => {
                        v.clear();
                        "empty"
                    }
                    1 if !v.is_empty() => {
                        let n = ctx.rng.gen_range(0..v.len());
                        v.truncate(n);
                        "truncated"
                    }
                    2 => {
                        v.extend(gen::bytes(&mut ctx.rng, 3));
                        "extended"
                    }
                    3 if !v.is_empty() => {
                        v.truncate(1);
                        "one-byte"
                    }
                    4 if !v.is_empty() => {
                        let i = ctx.rng.gen_range(0..v.len());
                        v[i] ^= 0xff;
                        "byte-inverted"
                    }
                    _ => {
                        let k2 = &mut m.maps[mi][pi].0;
                        if k2.len() > 1 {
                            k2.truncate(ctx.rng.gen_range(1..k2.len()));
                        }
                        "key-truncated"
                    }
                };
                let mb = psetraw::write(&m);
                let d = || json!({"bytes": hex_short(&mb), "mutation": how, "map": mi, "key_type": key0});
                let res = call(ctx, "deserialize::<PartiallySignedTransaction>", mb.len(), &d, || deserialize::<Pset>(&mb));
                if mi == 0 && (key0 == 0x01 || key0 == 0xfc) {
                    let outcome = match &res {
                        Some(Ok(_)) => "accepted".to_string(),
                        Some(Err(e)) => format!("{:?}", e).chars().take(70).collect(),
                        None => "panic".to_string(),
                    };
                    ctx.seen("global_pair_value_mutation_outcomes", &format!("type{:#04x}/{}: {}", key0, how, outcome));
                }
                if let Some(Ok(p)) = res {
                    pset_accessors(ctx, &p, mb.len(), &d);
                }
                ctx.shape(("psetpair", how, key0, mi.min(3)));
                ctx.count(&format!("pset-pair-mutations/{}/map{}/type{:#04x}", how, mi.min(3), key0));
            }
        });
    }

    // ---- scripts and slice parsers
    let n = scale(12_000, 150_000, 60);
    ctx.phase("scripts-and-slices", n, |ctx, k| {
        let b: Vec<u8> = match k % 5 {
            0 => {
                let l = ctx.rng.gen_range(0..80);
                gen::bytes(&mut ctx.rng, l)
            }
            4 => template_like_script(&mut ctx.rng),
            1 => {
                // push opcodes with lengths that overrun the script
                let mut v = vec![*gen::pick(&mut ctx.rng, &[0x01u8, 0x4b, 0x4c, 0x4d, 0x4e, 0x20, 0x4c])];
                let l = ctx.rng.gen_range(0..6);
                v.extend(gen::bytes(&mut ctx.rng, l));
                if ctx.rng.gen_range(0..2) == 0 {
                    let mut pre = gen::bytes(&mut ctx.rng, 3);
                    pre.retain(|x| *x > 0x4e);
                    pre.extend(v);
                    v = pre;
                }
                v
            }
            2 => {
                // control-block / signature sized strings
                let l = *gen::pick(&mut ctx.rng, &[32usize, 33, 34, 64, 65, 66, 97, 33 + 32 * 128, 33 + 32 * 129]);
                let mut v = gen::bytes(&mut ctx.rng, l);
                v[0] = *gen::pick(&mut ctx.rng, &[0xc4u8, 0xc5, 0xc0, 0x50, 0x51, 0x00, 0xff]);
                v
            }
            _ => {
                let mut v = corpus[ctx.rng.gen_range(0..corpus.len())].clone();
                v.truncate(300);
                mutate::generic(&mut ctx.rng, &mut v);
                v
            }
        };
        let d = || json!({"bytes": hex_short(&b)});
        script_apis(ctx, &b, &d);
        slice_parsers(ctx, &b, &d);
        ctx.shape(("script", k % 5, b.len().min(100)));
    });

    // ---- exhaustive tiny scripts: every script of length <= 2 and every (opcode, 0..3 trailing bytes) truncation
    if !sanitizer {
        ctx.seen("exhaustive_subspaces", "C10: Script::{instructions,instructions_minimal,asm} on all 65 792 scripts of length <= 2; every other script API on all scripts of length <= 1");
        ctx.phase("tiny-scripts", 257, |ctx, k| {
            let d0 = || json!({"first": k});
            if k == 256 {
                script_apis(ctx, &[], &d0);
                return;
            }
            script_apis(ctx, &[k as u8], &d0);
            for b1 in 0..=255u8 {
                let s = [k as u8, b1];
                let d = || json!({"bytes": hex_short(&s)});
                let sc = Script::from(s.to_vec());
                call(ctx, "Script::instructions", 2, &d, || sc.instructions().count());
                call(ctx, "Script::instructions_minimal", 2, &d, || sc.instructions_minimal().count());
                call(ctx, "Script::asm", 2, &d, || sc.asm().len());
            }
            ctx.shape(("tiny", k));
        });
    }

    // ---- strings
    let n = scale(12_000, 150_000, 40);
    ctx.phase("strings", n, |ctx, k| {
        let base: String = match k % 6 {
            0 => {
                // a valid address of any kind, then mutated
                let net = ctx.rng.gen_range(0..3);
                let p = super::c06::gen_payload(&mut ctx.rng, k / 6);
                let key = if ctx.rng.gen_range(0..2) == 0 { None } else { Some([2u8; 33]) };
                let mut kk = [0u8; 33];
                if key.is_some() && ffi_ok(ctx) {
                    kk = gen::public_key(&mut ctx.rng).serialize();
                }
                addr::address(&NETS[net], &p, if key.is_some() && ffi_ok(ctx) { Some(&kk) } else { None })
            }
            1 => {
                // HRP + separator + very short data parts
                let hrp = *gen::pick(&mut ctx.rng, &["el", "lq", "tlq", "ert", "ex", "tex", "bc", ""]);
                let l = ctx.rng.gen_range(0..14);
                let data: String = (0..l).map(|_| *gen::pick(&mut ctx.rng, addr::CHARSET) as char).collect();
                format!("{}1{}", hrp, data)
            }
            2 => {
                // blinded segwit strings with valid checksums and arbitrary short payloads
                let v = ctx.rng.gen_range(0..=16u8);
                let l = ctx.rng.gen_range(0..40);
                let payload = gen::bytes(&mut ctx.rng, l);
                let net = ctx.rng.gen_range(0..3);
                addr::segwit(addr::variant_for(v, true), NETS[net].blech_hrp, v, &payload)
            }
            3 => {
                let l = ctx.rng.gen_range(0..60);
                (0..l).map(|_| ctx.rng.gen_range(0x20..0x7fu8) as char).collect()
            }
            4 => {
                // hex / numeric / sighash-like strings
                match ctx.rng.gen_range(0..5) {
                    0 => crate::rt::hex(&gen::bytes(&mut ctx.rng, 32)),
                    1 => format!("[elements]{}:{}", crate::rt::hex(&gen::arr32(&mut ctx.rng)), ctx.rng.gen::<u64>()),
                    2 => format!("{}", ctx.rng.gen::<u64>()),
                    3 => gen::pick(&mut ctx.rng, &["SIGHASH_ALL", "SIGHASH_ALL|SIGHASH_ANYONECANPAY", "SIGHASH_DEFAULT", "SIGHASH_NONE|", "0x10", "-1", "4294967296", "{}", "{\"a\":1}", "[1]"]).to_string(),
                    _ => crate::rt::hex(&gen::bytes(&mut ctx.rng, 7)),
                }
            }
            _ => {
                if ffi_ok(ctx) {
                    let ps = gp::pset(&mut ctx.rng, P(1, 6), 1, 1);
                    ps.to_string()
                } else {
                    "cHNldP8BAgQCAAAAAQQBAAEFAQAB+wQCAAAAAA==".to_string()
                }
            }
        };
        for round in 0..3 {
            let s = if round == 0 { base.clone() } else { mutate_string(&mut ctx.rng, &base) };
            let d = || json!({"string": s.chars().take(300).collect::<String>()});
            string_apis(ctx, &s, &d);
            ctx.shape(("str", k % 6, round, s.len().min(120) / 4));
        }
    });

    // ---- fallible operations on structurally valid but semantically arbitrary values
    if ffi_ok(ctx) {
        let n = scale(2_000, 30_000, 10);
        ctx.phase("operations", n, |ctx, k| {
            let d_tx = TxDials { wit_mask: 0, coinbase: false, exotic_outputs: k % 3 == 0, ..TxDials::default() };
            // 1. Transaction::blind on arbitrary transactions: no marked output, one marked output,
            //    non-address scripts, confidential outputs, zero values, wrong number of secrets
            {
                let sc = super::c04::gen_scenario(&mut ctx.rng, &Dials::default());
                let mut tx = sc.tx.clone();
                let mut secrets = sc.blind_secrets.clone();
                let what = match k % 8 {
                    0 => {
                        for o in tx.output.iter_mut() {
                            o.nonce = elements::confidential::Nonce::Null;
                        }
                        "no-output-marked"
                    }
                    1 => {
                        for o in tx.output.iter_mut() {
                            if o.nonce.is_confidential() {
                                o.script_pubkey = if ctx.rng.gen_range(0..3) == 0 { Script::from(gen::bytes(&mut ctx.rng, 7)) } else { Script::from(template_like_script(&mut ctx.rng)) };
                            }
                        }
                        "marked-output-without-address-script"
                    }
                    2 => {
                        secrets.pop();
                        "too-few-secrets"
                    }
                    3 => {
                        if let Some(o) = tx.output.iter_mut().find(|o| o.nonce.is_confidential()) {
                            o.value = elements::confidential::Value::Explicit(0);
                        }
                        "zero-value-marked-output"
                    }
                    4 => {
                        secrets.clear();
                        "no-secrets"
                    }
                    5 => {
                        if let Some(o) = tx.output.first_mut() {
                            o.value = elements::confidential::Value::Confidential(gen::pedersen(&mut ctx.rng));
                        }
                        "already-confidential-output"
                    }
                    6 => {
                        for o in tx.output.iter_mut() {
                            if !o.is_fee() {
                                o.nonce = elements::confidential::Nonce::Confidential(gen::public_key(&mut ctx.rng));
                            }
                        }
                        tx.output.retain(|o| !o.is_fee());
                        "every-output-marked-no-fee"
                    }
                    _ => {
                        tx.output.clear();
                        "no-outputs"
                    }
                };
                // independently: a fee output that carries a public key in its nonce
                let what = if k % 3 == 1 {
                    let asset = gen::asset_id(&mut ctx.rng);
                    let mut fee = TxOut::new_fee(ctx.rng.gen_range(1..1000), asset);
                    fee.nonce = elements::confidential::Nonce::Confidential(gen::public_key(&mut ctx.rng));
                    let pos = ctx.rng.gen_range(0..=tx.output.len());
                    tx.output.insert(pos, fee);
                    if what == "no-outputs" { "only-a-fee-output-with-key" } else { "fee-output-with-key" }
                } else {
                    what
                };
                let seed: u64 = ctx.rng.gen();
                let blind_iss = k % 16 >= 8;
                let d = || json!({"case": what, "blind_issuances": blind_iss, "tx": hex_short(&serialize(&tx)), "secrets": secrets.len()});
                call(ctx, &format!("Transaction::blind[{}]", what), serialize(&tx).len(), &d, || {
                    let mut t = tx.clone();
                    let mut r = rand_chacha::ChaCha20Rng::seed_from_u64(seed);
                    with_secp(|s| t.blind(&mut r, s, &secrets, blind_iss)).is_ok()
                });
                ctx.shape(("blind", what, blind_iss));
            }
            // 2. verify_tx_amt_proofs on generated transactions incl. explicit zero issuance amounts and null fields
            {
                let mut t = gen::tx(&mut ctx.rng, &TxDials { wit_mask: if k % 2 == 0 { 0x30 } else { 0 }, ..d_tx.clone() });
                if t.input.is_empty() {
                    t.input.push(gen::txin(&mut ctx.rng, &d_tx, false));
                }
                let what = match k % 5 {
                    0 => {
                        t.input[0].asset_issuance = gen::issuance(&mut ctx.rng);
                        t.input[0].asset_issuance.amount = elements::confidential::Value::Explicit(0);
                        "explicit-zero-issuance-amount"
                    }
                    1 => {
                        t.input[0].asset_issuance = gen::issuance(&mut ctx.rng);
                        t.input[0].asset_issuance.inflation_keys = elements::confidential::Value::Explicit(0);
                        "explicit-zero-inflation-keys"
                    }
                    2 => "arbitrary",
                    3 => {
                        for o in t.output.iter_mut() {
                            o.value = elements::confidential::Value::Explicit(0);
                        }
                        "all-zero-values"
                    }
                    _ => {
                        for o in t.output.iter_mut() {
                            o.asset = elements::confidential::Asset::Null;
                        }
                        "null-assets"
                    }
                };
                let mut spent: Vec<TxOut> = t.input.iter().map(|_| gen::txout(&mut ctx.rng, &TxDials { wit_mask: 0, ..TxDials::default() })).collect();
                if k % 7 == 0 {
                    spent.pop();
                }
                if k % 11 == 0 {
                    if let Some(s0) = spent.first_mut() {
                        s0.value = elements::confidential::Value::Explicit(0);
                    }
                }
                let d = || json!({"case": what, "tx": hex_short(&serialize(&t)), "spent": spent.iter().map(|o| hex_short(&serialize(o))).collect::<Vec<_>>()});
                call(ctx, &format!("Transaction::verify_tx_amt_proofs[{}]", what), serialize(&t).len(), &d, || with_secp(|s| t.verify_tx_amt_proofs(s, &spent)).is_ok());
                tx_accessors(ctx, &t, &d);
                ctx.shape(("verify", what, k % 7 == 0));
            }
            // 3. PSET merge of arbitrary pairs, extraction, lock time, unique id
            {
                let a = gp::pset(&mut ctx.rng, P(1, 2), 3, 3);
                let b = if k % 2 == 0 { gp::pset(&mut ctx.rng, P(1, 2), 3, 3) } else { a.clone() };
                let d = || json!({"a": hex_short(&serialize(&a)), "b": hex_short(&serialize(&b))});
                call(ctx, "Pset::merge[arbitrary-pair]", serialize(&a).len(), &d, || {
                    let mut m = a.clone();
                    m.merge(b.clone()).is_ok()
                });
                pset_accessors(ctx, &a, serialize(&a).len(), &d);
                // arbitrary xpub key-source pairs
                let mut x1 = a.clone();
                let mut x2 = a.clone();
                let x = gp::xpub(&mut ctx.rng);
                x1.global.xpub.insert(x, gp::key_source(&mut ctx.rng));
                x2.global.xpub.insert(x, gp::key_source(&mut ctx.rng));
                let d2 = || json!({"ks1": format!("{:?}", x1.global.xpub.get(&x)), "ks2": format!("{:?}", x2.global.xpub.get(&x))});
                call(ctx, "Pset::merge[xpub-key-sources]", 100, &d2, || x1.clone().merge(x2.clone()).is_ok());
            }
            // 3b. blind_last on a PSET that passes the blinding checks but carries arbitrary scalars in
            // its global map (zero, duplicates, random): an error or success, never a panic
            if k % 3 == 0 {
                let sc = crate::gen::blind::scenario(&mut ctx.rng, &crate::gen::blind::Dials { max_inputs: 3, max_assets: 2, issuances: false, ..Default::default() });
                let (mut ps, parties) = super::c09::build(&mut ctx.rng, &sc, 1);
                let what = match (k / 3) % 4 {
                    0 => {
                        ps.global.scalars.push(elements::secp256k1_zkp::ZERO_TWEAK);
                        "zero-scalar"
                    }
                    1 => {
                        let t = gen::tweak(&mut ctx.rng);
                        ps.global.scalars.push(t);
                        ps.global.scalars.push(t);
                        "duplicate-scalars"
                    }
                    2 => {
                        ps.global.scalars.push(elements::secp256k1_zkp::ZERO_TWEAK);
                        ps.global.scalars.push(gen::tweak(&mut ctx.rng));
                        "zero-and-random-scalar"
                    }
                    _ => {
                        for _ in 0..3 {
                            ps.global.scalars.push(gen::tweak(&mut ctx.rng));
                        }
                        "random-scalars"
                    }
                };
                let secrets: std::collections::HashMap<usize, elements::TxOutSecrets> = parties.iter().flat_map(|p| p.inputs.iter()).map(|i| (*i, sc.spent_secrets[*i])).collect();
                let seed: u64 = ctx.rng.gen();
                let d = || json!({"case": what, "pset": hex_short(&serialize(&ps))});
                call(ctx, &format!("Pset::blind_last[{}]", what), serialize(&ps).len(), &d, || {
                    let mut q = ps.clone();
                    let mut r = rand_chacha::ChaCha20Rng::seed_from_u64(seed);
                    with_secp(|s| q.blind_last(&mut r, s, &secrets)).is_ok()
                });
                ctx.shape(("blind_last-scalars", what));
            }
            // 4. taproot sighash with out-of-range index / mismatched prevouts; builder and huffman
            {
                let (t, prevs) = super::c03::sig_tx(&mut ctx.rng, k);
                let genesis = elements::BlockHash::from_byte_array(gen::arr32(&mut ctx.rng));
                for _ in 0..4 {
                    let mut q = super::c03::gen_tap_query(&mut ctx.rng, t.input.len(), true);
                    if ctx.rng.gen_range(0..3) == 0 {
                        q.idx = t.input.len() + ctx.rng.gen_range(0..3);
                    }
                    if q.bad_prevouts == 1 && prevs.len() < 2 {
                        q.bad_prevouts = 0;
                    }
                    let d = || json!({"tx": hex_short(&serialize(&t)), "query": format!("{:?}", q)});
                    call(ctx, "SighashCache::taproot_sighash", 100, &d, || {
                        let mut c = elements::sighash::SighashCache::new(&t);
                        super::c03::lib_tap(&mut c, &prevs, &q, genesis).is_ok()
                    });
                }
                let n = ctx.rng.gen_range(0..6);
                let depths: Vec<usize> = (0..n).map(|_| *gen::pick(&mut ctx.rng, &[0usize, 1, 2, 3, 127, 128, 129, 255, 1000])).collect();
                let d = || json!({"depths": depths});
                call(ctx, "TaprootBuilder[arbitrary-depths]", 10, &d, || {
                    let mut b = elements::taproot::TaprootBuilder::new();
                    for dd in &depths {
                        b = match b.add_leaf(*dd, Script::from(vec![0x51])) {
                            Ok(b) => b,
                            Err(_) => return false,
                        };
                    }
                    let key = gen::public_key(&mut rand_chacha::ChaCha20Rng::seed_from_u64(1)).x_only_public_key().0;
                    with_secp(|s| b.finalize(s, key)).is_ok()
                });
                let weights: Vec<(u32, Script)> = (0..ctx.rng.gen_range(0..5)).map(|i| (*gen::pick(&mut ctx.rng, &[0u32, 1, u32::MAX]), Script::from(vec![0x51, i as u8]))).collect();
                let d = || json!({"weights": weights.iter().map(|w| w.0).collect::<Vec<_>>()});
                call(ctx, "TaprootSpendInfo::with_huffman_tree", 10, &d, || {
                    let key = gen::public_key(&mut rand_chacha::ChaCha20Rng::seed_from_u64(1)).x_only_public_key().0;
                    with_secp(|s| elements::taproot::TaprootSpendInfo::with_huffman_tree(s, key, weights.clone())).is_ok()
                });
            }
        });

        // ---- serde deserializers on mutated own output
        let n = scale(3_000, 30_000, 6);
        // In the ASan lane the first report ends the process; the open finding (over-read behind the
        // binary serde form of commitments, see known_findings.json) would end every shard at its
        // first serde case, so the binary-serde calls are left to the native and memcheck lanes.
        let binary_serde = ctx.lane != "asan";
        ctx.phase("serde-inputs", n, move |ctx, k| {
            let t = gen::tx(&mut ctx.rng, &TxDials::default());
            let js = serde_json::to_string(&t).unwrap_or_default();
            let cb = serde_cbor::to_vec(&t).unwrap_or_default();
            let ps = gp::pset(&mut ctx.rng, P(1, 4), 1, 1);
            let pjs = serde_json::to_string(&ps).unwrap_or_default();
            for _ in 0..3 {
                let s = mutate_string(&mut ctx.rng, if k % 2 == 0 { &js } else { &pjs });
                let d = || json!({"json": s.chars().take(400).collect::<String>()});
                call(ctx, "serde_json::from_str::<Transaction>", s.len(), &d, || serde_json::from_str::<Transaction>(&s).is_ok());
                call(ctx, "serde_json::from_str::<Pset>", s.len(), &d, || serde_json::from_str::<Pset>(&s).is_ok());
                call(ctx, "serde_json::from_str::<Value>", s.len(), &d, || serde_json::from_str::<elements::confidential::Value>(&s).is_ok());
                let mut c = cb.clone();
                mutate::generic(&mut ctx.rng, &mut c);
                let d2 = || json!({"cbor": hex_short(&c)});
                if binary_serde {
                    call(ctx, "serde_cbor::from_slice::<Transaction>", c.len(), &d2, || serde_cbor::from_slice::<Transaction>(&c).is_ok());
                }
            }
            // confidential values with commitments of the wrong length, through serde
            for l in [0usize, 1, 16, 32, 34] {
                let hexs = crate::rt::hex(&vec![8u8; l]);
                let s = format!("[2,\"{}\"]", hexs);
                let d = || json!({"json": s});
                call(ctx, "serde_json::from_str::<Value>[short-commitment]", s.len(), &d, || serde_json::from_str::<elements::confidential::Value>(&s).is_ok());
                let s2 = format!("[2,\"{}\"]", crate::rt::hex(&vec![0x0au8; l]));
                call(ctx, "serde_json::from_str::<Asset>[short-commitment]", s2.len(), &d, || serde_json::from_str::<elements::confidential::Asset>(&s2).is_ok());
            }
            if !binary_serde {
                ctx.shape(("serde", k % 2));
                return;
            }
            // the same through a binary self-describing format (CBOR byte strings of any length)
            for l in [0usize, 1, 16, 32, 33, 34, 65] {
                for prefix in [0x08u8, 0x0a] {
                    // array(2) [ 2, bytes(l) ]
                    let mut c = vec![0x82, 0x02];
                    if l < 24 {
                        c.push(0x40 + l as u8);
                    } else {
                        c.push(0x58);
                        c.push(l as u8);
                    }
                    c.extend(std::iter::repeat(prefix).take(l));
                    let d = || json!({"cbor": hex_short(&c), "commitment_len": l});
                    if prefix == 0x08 {
                        call(ctx, "serde_cbor::from_slice::<Value>[commitment-length]", c.len(), &d, || serde_cbor::from_slice::<elements::confidential::Value>(&c).is_ok());
                    } else {
                        call(ctx, "serde_cbor::from_slice::<Asset>[commitment-length]", c.len(), &d, || serde_cbor::from_slice::<elements::confidential::Asset>(&c).is_ok());
                    }
                }
            }
            // ... with bytes following the short string inside the same buffer (an over-read then
            // stays inside the allocation and shows only as a wrongly accepted value)
            {
                let vc = match gen::value_v(&mut ctx.rng, 2) {
                    elements::confidential::Value::Confidential(c) => c.serialize(),
                    _ => unreachable!(),
                };
                let ac = match gen::asset_v(&mut ctx.rng, 2) {
                    elements::confidential::Asset::Confidential(c) => c.serialize(),
                    _ => unreachable!(),
                };
                for (name, full) in [("Value", vc), ("Asset", ac)] {
                    for l in [0usize, 1, 31, 32] {
                        // array(2) [ [2, bytes(l)], [2, bytes(33)] ]
                        let mut c = vec![0x82, 0x82, 0x02];
                        if l < 24 {
                            c.push(0x40 + l as u8);
                        } else {
                            c.push(0x58);
                            c.push(l as u8);
                        }
                        c.extend_from_slice(&full[..l]);
                        c.extend_from_slice(&[0x82, 0x02, 0x58, 0x21]);
                        c.extend_from_slice(&full);
                        let d = || json!({"cbor": hex_short(&c), "commitment_len": l, "type": name});
                        let ok = if name == "Value" {
                            call(ctx, "serde_cbor::from_slice::<Vec<Value>>[commitment-length]", c.len(), &d, || serde_cbor::from_slice::<Vec<elements::confidential::Value>>(&c).is_ok())
                        } else {
                            call(ctx, "serde_cbor::from_slice::<Vec<Asset>>[commitment-length]", c.len(), &d, || serde_cbor::from_slice::<Vec<elements::confidential::Asset>>(&c).is_ok())
                        };
                        if ok == Some(true) {
                            ctx.violation(&format!("binary-serde-commitment-of-wrong-length-accepted/{}", name), d());
                        } else {
                            ctx.count("binary-serde-commitment-of-wrong-length-rejected");
                        }
                    }
                }
            }
            // ... and for the commitment-typed fields of PSET maps (derived Deserialize)
            if k % 4 == 0 {
                let mut ps2 = gp::pset(&mut ctx.rng, P(1, 4), 0, 0);
                let i0 = gp::input(&mut ctx.rng, P(1, 4));
                ps2.add_input(i0);
                let o0 = gp::output(&mut ctx.rng, P(1, 4));
                ps2.add_output(o0);
                let vc = match gen::value_v(&mut ctx.rng, 2) {
                    elements::confidential::Value::Confidential(c) => c,
                    _ => unreachable!(),
                };
                let ac = match gen::asset_v(&mut ctx.rng, 2) {
                    elements::confidential::Asset::Confidential(c) => c,
                    _ => unreachable!(),
                };
                let which = (k / 4) % 4;
                let needle: Vec<u8> = match which {
                    0 => {
                        ps2.inputs_mut()[0].issuance_value_comm = Some(vc);
                        vc.serialize().to_vec()
                    }
                    1 => {
                        ps2.inputs_mut()[0].issuance_inflation_keys_comm = Some(vc);
                        vc.serialize().to_vec()
                    }
                    2 => {
                        ps2.outputs_mut()[0].amount_comm = Some(vc);
                        vc.serialize().to_vec()
                    }
                    _ => {
                        ps2.outputs_mut()[0].asset_comm = Some(ac);
                        ac.serialize().to_vec()
                    }
                };
                let field = ["input.issuance_value_comm", "input.issuance_inflation_keys_comm", "output.amount_comm", "output.asset_comm"][which as usize];
                let enc = serde_cbor::to_vec(&ps2);
                if let Err(e) = &enc {
                    ctx.count(&format!("cbor-pset-not-serializable/{}", e.to_string().chars().take(60).collect::<String>()));
                }
                if let Ok(c0) = enc {
                    // CBOR byte string header for 33 bytes is 58 21
                    let mut pat = vec![0x58u8, 0x21];
                    pat.extend_from_slice(&needle);
                    match serde_cbor::from_slice::<Pset>(&c0) {
                        Ok(_) => ctx.count("cbor-pset-unmodified-accepted"),
                        Err(e) => ctx.count(&format!("cbor-pset-unmodified-rejected/{}", e.to_string().chars().take(80).collect::<String>())),
                    }
                    if let Some(pos) = c0.windows(pat.len()).position(|w| w == &pat[..]) {
                        for l in [0usize, 1, 32] {
                            let mut c = c0[..pos].to_vec();
                            if l < 24 {
                                c.push(0x40 + l as u8);
                            } else {
                                c.push(0x58);
                                c.push(l as u8);
                            }
                            c.extend_from_slice(&needle[..l]);
                            c.extend_from_slice(&c0[pos + pat.len()..]);
                            let d = || json!({"field": field, "commitment_len": l, "cbor_len": c.len()});
                            let ok = call(ctx, &format!("serde_cbor::from_slice::<Pset>[{}-length]", field), c.len(), &d, || serde_cbor::from_slice::<Pset>(&c).is_ok());
                            // a byte string that is not 33 bytes long cannot be a commitment: acceptance
                            // means bytes beyond the string were read (inside the buffer, where no
                            // red-zone tool can see it)
                            if ok == Some(true) {
                                ctx.violation(&format!("binary-serde-commitment-of-wrong-length-accepted/pset.{}", field), d());
                            } else {
                                ctx.count("binary-serde-commitment-of-wrong-length-rejected");
                            }
                        }
                        ctx.count("cbor-pset-commitment-field-located");
                    } else {
                        ctx.count("cbor-pset-commitment-field-not-located");
                    }
                }
            }
            ctx.shape(("serde", k % 2));
        });
    }
}
