//! C19 — dynafed parameter roots survive compaction and match the commitment layout.
use crate::gen;
use crate::refmodel::{merkle, ser};
use crate::rt::{hex, Ctx};
use elements::dynafed::Params;
use rand::Rng;
use serde_json::json;

fn ref_root(p: &ser::RParams) -> [u8; 32] {
    match p {
        ser::RParams::Null => [0u8; 32],
        ser::RParams::Compact { script, limit, elided } => merkle::dynafed_root(script, *limit, elided),
        ser::RParams::Full { script, limit, fedpeg_program, fedpegscript, ext } => {
            merkle::dynafed_root(script, *limit, &merkle::dynafed_extra_root(fedpeg_program, fedpegscript, ext))
        }
    }
}

pub fn run(ctx: &mut Ctx) {
    let n = ctx.budget(24_000, 600_000);
    ctx.phase("params", n, |ctx, k| {
        let big = k % 16 == 0;
        let mut full = gen::full_params(&mut ctx.rng, big);
        if k % 16 == 1 {
            // one field with a length on a compact-size boundary
            let l = *gen::pick(&mut ctx.rng, &[252usize, 253, 254, 255, 256, 65_535, 65_536]);
            let bytes = gen::bytes(&mut ctx.rng, l);
            match ctx.rng.gen_range(0..4) {
                0 => full.signblockscript = elements::Script::from(bytes),
                1 => full.fedpeg_program = elements::bitcoin::ScriptBuf::from_bytes(bytes),
                2 => full.fedpegscript = bytes,
                _ => {
                    if full.extension_space.is_empty() {
                        full.extension_space.push(bytes);
                    } else {
                        let i = ctx.rng.gen_range(0..full.extension_space.len());
                        full.extension_space[i] = bytes;
                    }
                }
            }
            ctx.count("boundary-length-params");
        }
        let full = full;
        // history: the neighbour of the previous parameter set (same lengths and entry count, one
        // byte different) is rooted right after it on the same thread
        {
            let mut nb = full.clone();
            let mut sites: Vec<u8> = Vec::new();
            if !nb.signblockscript.is_empty() {
                sites.push(0);
            }
            if !nb.fedpeg_program.is_empty() {
                sites.push(1);
            }
            if !nb.fedpegscript.is_empty() {
                sites.push(2);
            }
            if nb.extension_space.iter().any(|e| !e.is_empty()) {
                sites.push(3);
            }
            sites.push(4);
            // root the original first (fills whatever state the library keeps)
            let _ = Params::Full(full.clone()).calculate_root();
            let _ = full.clone().into_compact().calculate_root();
            let site = *gen::pick(&mut ctx.rng, &sites);
            let flip = |v: &mut Vec<u8>, r: &mut gen::Rg| {
                let i = r.gen_range(0..v.len());
                v[i] ^= 1 << r.gen_range(0..8);
            };
            match site {
                0 => {
                    let mut v = nb.signblockscript.to_bytes();
                    flip(&mut v, &mut ctx.rng);
                    nb.signblockscript = elements::Script::from(v);
                }
                1 => {
                    let mut v = nb.fedpeg_program.to_bytes();
                    flip(&mut v, &mut ctx.rng);
                    nb.fedpeg_program = elements::bitcoin::ScriptBuf::from_bytes(v);
                }
                2 => flip(&mut nb.fedpegscript, &mut ctx.rng),
                3 => {
                    let idx: Vec<usize> = (0..nb.extension_space.len()).filter(|i| !nb.extension_space[*i].is_empty()).collect();
                    let i = *gen::pick(&mut ctx.rng, &idx);
                    flip(&mut nb.extension_space[i], &mut ctx.rng);
                }
                _ => nb.signblock_witness_limit ^= 1 << ctx.rng.gen_range(0..32),
            }
            ctx.eval();
            let want_nb = ref_root(&ser::rparams(&Params::Full(nb.clone())));
            let dn = || json!({"first": format!("{:?}", full).chars().take(400).collect::<String>(), "then": format!("{:?}", nb).chars().take(400).collect::<String>(), "changed": site});
            let site_name = ["signblockscript", "fedpeg_program", "fedpegscript", "extension-entry", "witness-limit"][site as usize];
            ctx.check(Params::Full(nb.clone()).calculate_root().to_byte_array() == want_nb, &format!("params-full-root!=reference/after-neighbour/{}", site_name), dn);
            ctx.check(nb.calculate_root().to_byte_array() == want_nb, &format!("full-root!=reference/after-neighbour/{}", site_name), dn);
            ctx.check(nb.clone().into_compact().calculate_root().to_byte_array() == want_nb, &format!("compact-root!=full-root/after-neighbour/{}", site_name), dn);
            let mut h = gen::header(&mut ctx.rng);
            h.ext = elements::BlockExtData::Dynafed { current: Params::Full(full.clone()), proposed: Params::Full(nb.clone()), signblock_witness: vec![] };
            let want_h = merkle::root(&[ref_root(&ser::rparams(&Params::Full(full.clone()))), want_nb]);
            ctx.check(h.calculate_dynafed_params_root().map(|r| r.to_byte_array()) == Some(want_h), &format!("header-root!=reference/current-and-neighbour/{}", site_name), dn);
            ctx.count(&format!("neighbour/{}", site_name));
        }
        ctx.eval();
        let rfull = ser::rparams(&Params::Full(full.clone()));
        let want = ref_root(&rfull);
        let (fp, fs, ext) = match &rfull {
            ser::RParams::Full { fedpeg_program, fedpegscript, ext, .. } => (fedpeg_program.clone(), fedpegscript.clone(), ext.clone()),
            _ => unreachable!(),
        };
        let want_extra = merkle::dynafed_extra_root(&fp, &fs, &ext);

        let r_direct = full.calculate_root().to_byte_array();
        let r_enum = Params::Full(full.clone()).calculate_root().to_byte_array();
        let compact = full.clone().into_compact();
        let r_compact = compact.calculate_root().to_byte_array();
        let shape = (
            full.signblockscript.len().min(254),
            full.fedpeg_program.len().min(254),
            full.fedpegscript.len().min(254),
            full.extension_space.len(),
        );
        let d = || json!({"params": format!("{:?}", full).chars().take(600).collect::<String>()});
        ctx.check(r_direct == want, "full-root!=reference", || json!({"expected": hex(&want), "observed": hex(&r_direct), "in": d()}));
        ctx.check(r_enum == want, "params-full-root!=reference", || json!({"expected": hex(&want), "observed": hex(&r_enum), "in": d()}));
        ctx.check(r_compact == want, "compact-root!=full-root", || json!({"expected": hex(&want), "observed": hex(&r_compact), "in": d()}));
        match &compact {
            Params::Compact { signblockscript, signblock_witness_limit, elided_root } => {
                ctx.check(elided_root.to_byte_array() == want_extra, "elided-root!=reference-extra-root",
                    || json!({"expected": hex(&want_extra), "observed": hex(&elided_root.to_byte_array()), "in": d()}));
                ctx.check(compact.elided_root() == Some(elided_root), "elided_root-accessor", d);
                ctx.check(*signblockscript == full.signblockscript && *signblock_witness_limit == full.signblock_witness_limit,
                    "compaction-changed-signblock-fields", d);
            }
            _ => ctx.violation("into_compact-not-compact", d()),
        }
        // Params::into_compact: Full -> same as FullParams::into_compact; Compact -> identity; Null -> None
        let via_enum = Params::Full(full.clone()).into_compact();
        ctx.check(via_enum.as_ref() == Some(&compact), "Params::into_compact(full)!=FullParams::into_compact", d);
        ctx.check(compact.clone().into_compact().as_ref() == Some(&compact), "compact->compact-not-identity", d);
        ctx.check(Params::Null.into_compact().is_none(), "null-into_compact-not-none", || json!({}));
        ctx.check(Params::Null.calculate_root().to_byte_array() == [0u8; 32], "null-root-not-zero", || json!({}));
        // a random compact value against the reference
        let c2 = gen::params_v(&mut ctx.rng, 1);
        ctx.check(c2.calculate_root().to_byte_array() == ref_root(&ser::rparams(&c2)), "compact-root!=reference", || json!({"params": format!("{:?}", c2)}));
        // consensus round trip keeps the root
        let enc = elements::encode::serialize(&compact);
        if let Ok(back) = elements::encode::deserialize::<Params>(&enc) {
            ctx.check(back.calculate_root().to_byte_array() == want, "root-changes-over-encode-roundtrip", d);
        } else {
            ctx.violation("compact-params-do-not-decode", d());
        }
        ctx.shape(shape);
        if k < 3 {
            ctx.sample("full-params", json!({"params": format!("{:?}", full).chars().take(400).collect::<String>(), "root": hex(&want)}));
        }
        ctx.count("full_params_checked");
    });

    // corner enumeration: every combination of empty / one-byte fields, limit 0 / 1,
    // extension space empty / one empty entry / one non-empty entry (2^4 * 2 * 3 = 96 sets)
    ctx.seen("exhaustive_subspaces", "C19: all 96 combinations of empty/one-byte fields, limit 0/1, extension space {empty, one empty entry, one entry}; all 3x3 current/proposed variant combinations");
    ctx.phase("corners", 96, |ctx, k| {
        let bit = |i: u64| (k >> i) & 1 == 1;
        let b = |on: bool| if on { vec![0x51u8] } else { vec![] };
        let ext = match (k >> 5) % 3 {
            0 => vec![],
            1 => vec![vec![]],
            _ => vec![vec![2u8; 33]],
        };
        let full = elements::dynafed::FullParams::new(
            elements::Script::from(b(bit(0))),
            bit(1) as u32,
            elements::bitcoin::ScriptBuf::from_bytes(b(bit(2))),
            b(bit(3)),
            ext,
        );
        ctx.eval();
        let rfull = ser::rparams(&Params::Full(full.clone()));
        let want = ref_root(&rfull);
        let d = || json!({"params": format!("{:?}", full)});
        ctx.check(full.calculate_root().to_byte_array() == want, "full-root!=reference/corner", || json!({"expected": hex(&want), "observed": hex(&full.calculate_root().to_byte_array()), "in": d()}));
        ctx.check(Params::Full(full.clone()).calculate_root().to_byte_array() == want, "params-full-root!=reference/corner", d);
        ctx.check(full.clone().into_compact().calculate_root().to_byte_array() == want, "compact-root!=full-root/corner", d);
        ctx.shape(("corner", k));
    });

    let hn = ctx.budget(6_000, 100_000);
    ctx.phase("headers", hn, |ctx, k| {
        // all 3x3 current/proposed variant combinations, cycling
        let (cv, pv) = ((k % 3) as u8, ((k / 3) % 3) as u8);
        let mut h = gen::header(&mut ctx.rng);
        h.ext = elements::BlockExtData::Dynafed {
            current: gen::params_v(&mut ctx.rng, cv),
            proposed: gen::params_v(&mut ctx.rng, pv),
            signblock_witness: vec![],
        };
        ctx.eval();
        let (c, p) = match &h.ext {
            elements::BlockExtData::Dynafed { current, proposed, .. } => (ser::rparams(current), ser::rparams(proposed)),
            _ => unreachable!(),
        };
        let want = merkle::root(&[ref_root(&c), ref_root(&p)]);
        let got = h.calculate_dynafed_params_root().map(|r| r.to_byte_array());
        ctx.check(got == Some(want), &format!("header-root!=reference/{}{}", cv, pv), || {
            json!({"expected": hex(&want), "observed": got.map(|g| hex(&g)), "header": format!("{:?}", h).chars().take(600).collect::<String>()})
        });
        ctx.shape(("hdr", cv, pv));
        ctx.count(&format!("header_variants/{}{}", cv, pv));
        if ctx.rng.gen_range(0..8) == 0 {
            let mut h2 = gen::header(&mut ctx.rng);
            h2.ext = elements::BlockExtData::Proof { challenge: elements::Script::new(), solution: elements::Script::new() };
            ctx.check(h2.calculate_dynafed_params_root().is_none(), "proof-header-has-dynafed-root", || json!({}));
        }
    });
}
