//! C19 — dynafed parameter roots survive compaction and match the commitment layout.
use crate::gen;
use crate::refmodel::{merkle, ser};
use crate::rt::{hex, Ctx};
use elements::dynafed::Params;
use rand::Rng;
use serde_json::json;

fn ref_root(p: &ser::RParams) -> [u8; 32] {
    match p {
        ser::RParams::Null => [0u8; 32],
        ser::RParams::Compact { script, limit, elided } => merkle::dynafed_root(script, *limit, elided),
        ser::RParams::Full { script, limit, fedpeg_program, fedpegscript, ext } => {
            merkle::dynafed_root(script, *limit, &merkle::dynafed_extra_root(fedpeg_program, fedpegscript, ext))
        }
    }
}

pub fn run(ctx: &mut Ctx) {
    let n = ctx.budget(24_000, 600_000);
    ctx.phase("params", n, |ctx, k| {
        let big = k % 16 == 0;
        let full = gen::full_params(&mut ctx.rng, big);
        ctx.eval();
        let rfull = ser::rparams(&Params::Full(full.clone()));
        let want = ref_root(&rfull);
        let (fp, fs, ext) = match &rfull {
            ser::RParams::Full { fedpeg_program, fedpegscript, ext, .. } => (fedpeg_program.clone(), fedpegscript.clone(), ext.clone()),
            _ => unreachable!(),
        };
        let want_extra = merkle::dynafed_extra_root(&fp, &fs, &ext);

        let r_direct = full.calculate_root().to_byte_array();
        let r_enum = Params::Full(full.clone()).calculate_root().to_byte_array();
        let compact = full.clone().into_compact();
        let r_compact = compact.calculate_root().to_byte_array();
        let shape = (
            full.signblockscript.len().min(254),
            full.fedpeg_program.len().min(254),
            full.fedpegscript.len().min(254),
            full.extension_space.len(),
        );
        let d = || json!({"params": format!("{:?}", full).chars().take(600).collect::<String>()});
        ctx.check(r_direct == want, "full-root!=reference", || json!({"expected": hex(&want), "observed": hex(&r_direct), "in": d()}));
        ctx.check(r_enum == want, "params-full-root!=reference", || json!({"expected": hex(&want), "observed": hex(&r_enum), "in": d()}));
        ctx.check(r_compact == want, "compact-root!=full-root", || json!({"expected": hex(&want), "observed": hex(&r_compact), "in": d()}));
        match &compact {
            Params::Compact { signblockscript, signblock_witness_limit, elided_root } => {
                ctx.check(elided_root.to_byte_array() == want_extra, "elided-root!=reference-extra-root",
                    || json!({"expected": hex(&want_extra), "observed": hex(&elided_root.to_byte_array()), "in": d()}));
                ctx.check(compact.elided_root() == Some(elided_root), "elided_root-accessor", d);
                ctx.check(*signblockscript == full.signblockscript && *signblock_witness_limit == full.signblock_witness_limit,
                    "compaction-changed-signblock-fields", d);
            }
            _ => ctx.violation("into_compact-not-compact", d()),
        }
        // Params::into_compact: Full -> same as FullParams::into_compact; Compact -> identity; Null -> None
        let via_enum = Params::Full(full.clone()).into_compact();
        ctx.check(via_enum.as_ref() == Some(&compact), "Params::into_compact(full)!=FullParams::into_compact", d);
        ctx.check(compact.clone().into_compact().as_ref() == Some(&compact), "compact->compact-not-identity", d);
        ctx.check(Params::Null.into_compact().is_none(), "null-into_compact-not-none", || json!({}));
        ctx.check(Params::Null.calculate_root().to_byte_array() == [0u8; 32], "null-root-not-zero", || json!({}));
        // a random compact value against the reference
        let c2 = gen::params_v(&mut ctx.rng, 1);
        ctx.check(c2.calculate_root().to_byte_array() == ref_root(&ser::rparams(&c2)), "compact-root!=reference", || json!({"params": format!("{:?}", c2)}));
        // consensus round trip keeps the root
        let enc = elements::encode::serialize(&compact);
        if let Ok(back) = elements::encode::deserialize::<Params>(&enc) {
            ctx.check(back.calculate_root().to_byte_array() == want, "root-changes-over-encode-roundtrip", d);
        } else {
            ctx.violation("compact-params-do-not-decode", d());
        }
        ctx.shape(shape);
        if k < 3 {
            ctx.sample("full-params", json!({"params": format!("{:?}", full).chars().take(400).collect::<String>(), "root": hex(&want)}));
        }
        ctx.count("full_params_checked");
    });

    // corner enumeration: every combination of empty / one-byte fields, limit 0 / 1,
    // extension space empty / one empty entry / one non-empty entry (2^4 * 2 * 3 = 96 sets)
    ctx.seen("exhaustive_subspaces", "C19: all 96 combinations of empty/one-byte fields, limit 0/1, extension space {empty, one empty entry, one entry}; all 3x3 current/proposed variant combinations");
    ctx.phase("corners", 96, |ctx, k| {
        let bit = |i: u64| (k >> i) & 1 == 1;
        let b = |on: bool| if on { vec![0x51u8] } else { vec![] };
        let ext = match (k >> 5) % 3 {
            0 => vec![],
            1 => vec![vec![]],
            _ => vec![vec![2u8; 33]],
        };
        let full = elements::dynafed::FullParams::new(
            elements::Script::from(b(bit(0))),
            bit(1) as u32,
            elements::bitcoin::ScriptBuf::from_bytes(b(bit(2))),
            b(bit(3)),
            ext,
        );
        ctx.eval();
        let rfull = ser::rparams(&Params::Full(full.clone()));
        let want = ref_root(&rfull);
        let d = || json!({"params": format!("{:?}", full)});
        ctx.check(full.calculate_root().to_byte_array() == want, "full-root!=reference/corner", || json!({"expected": hex(&want), "observed": hex(&full.calculate_root().to_byte_array()), "in": d()}));
        ctx.check(Params::Full(full.clone()).calculate_root().to_byte_array() == want, "params-full-root!=reference/corner", d);
        ctx.check(full.clone().into_compact().calculate_root().to_byte_array() == want, "compact-root!=full-root/corner", d);
        ctx.shape(("corner", k));
    });

    let hn = ctx.budget(6_000, 100_000);
    ctx.phase("headers", hn, |ctx, k| {
        // all 3x3 current/proposed variant combinations, cycling
        let (cv, pv) = ((k % 3) as u8, ((k / 3) % 3) as u8);
        let mut h = gen::header(&mut ctx.rng);
        h.ext = elements::BlockExtData::Dynafed {
            current: gen::params_v(&mut ctx.rng, cv),
            proposed: gen::params_v(&mut ctx.rng, pv),
            signblock_witness: vec![],
        };
        ctx.eval();
        let (c, p) = match &h.ext {
            elements::BlockExtData::Dynafed { current, proposed, .. } => (ser::rparams(current), ser::rparams(proposed)),
            _ => unreachable!(),
        };
        let want = merkle::root(&[ref_root(&c), ref_root(&p)]);
        let got = h.calculate_dynafed_params_root().map(|r| r.to_byte_array());
        ctx.check(got == Some(want), &format!("header-root!=reference/{}{}", cv, pv), || {
            json!({"expected": hex(&want), "observed": got.map(|g| hex(&g)), "header": format!("{:?}", h).chars().take(600).collect::<String>()})
        });
        ctx.shape(("hdr", cv, pv));
        ctx.count(&format!("header_variants/{}{}", cv, pv));
        if ctx.rng.gen_range(0..8) == 0 {
            let mut h2 = gen::header(&mut ctx.rng);
            h2.ext = elements::BlockExtData::Proof { challenge: elements::Script::new(), solution: elements::Script::new() };
            ctx.check(h2.calculate_dynafed_params_root().is_none(), "proof-header-has-dynafed-root", || json!({}));
        }
    });
}
