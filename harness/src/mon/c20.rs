//! C20 — serde (JSON, CBOR) and textual forms round-trip.
use super::c06::{gen_payload, make_address};
use crate::gen::pset::{self as gp, P};
use crate::gen::{self, TxDials};
use crate::rt::{guard, hex_short, Ctx};
use elements::confidential::{AssetBlindingFactor, ValueBlindingFactor};
use elements::hashes::Hash;
use elements::pset::PartiallySignedTransaction as Pset;
use elements::{
    AssetEntropy, AssetId, BlockHash, ContractHash, EcdsaSighashType, LockTime, OutPoint, SchnorrSighashType, ScriptHash, Sequence, TxMerkleNode, TxOutSecrets, Txid, WScriptHash, Wtxid,
};
use rand::Rng;
use serde::de::DeserializeOwned;
use serde::Serialize;
use serde_json::json;
use std::fmt::{Debug, Display};
use std::str::FromStr;

fn short<T: Debug>(v: &T) -> String {
    format!("{:?}", v).chars().take(400).collect()
}

fn err_class(s: &str) -> String {
    let mut out = String::new();
    let mut last_digit = false;
    for c in s.chars().take(60) {
        if c.is_ascii_digit() {
            if !last_digit {
                out.push('N');
            }
            last_digit = true;
        } else {
            out.push(c);
            last_digit = false;
        }
    }
    out
}

/// JSON and CBOR round trips of one value
pub fn serde_rt<T: Serialize + DeserializeOwned + PartialEq + Debug>(ctx: &mut Ctx, name: &str, v: &T) {
    // JSON
    ctx.eval();
    match guard(|| serde_json::to_string(v)) {
        Ok(Ok(s)) => match guard(|| serde_json::from_str::<T>(&s)) {
            Ok(Ok(back)) => {
                ctx.check(back == *v, &format!("json-roundtrip-differs/{}", name), || json!({"value": short(v), "json": s.chars().take(600).collect::<String>(), "back": short(&back)}));
            }
            Ok(Err(e)) => ctx.violation(&format!("json-own-output-rejected/{}/{}", name, err_class(&e.to_string())), json!({"err": e.to_string(), "json": s.chars().take(600).collect::<String>()})),
            Err(p) => ctx.panic_violation(&format!("serde_json::from_str::<{}>", name), &p, json!({"json": s.chars().take(600).collect::<String>()})),
        },
        Ok(Err(e)) => ctx.violation(&format!("json-serialize-failed/{}", name), json!({"err": e.to_string(), "value": short(v)})),
        Err(p) => ctx.panic_violation(&format!("serde_json::to_string::<{}>", name), &p, json!({"value": short(v)})),
    }
    // the same representations read through deserializers that cannot lend the input (a reader, a
    // value tree): strings arrive owned/transient there, which a Deserialize impl must accept too
    if ctx.n_evals() % 3 == 0 {
        ctx.eval();
        let routes: [(&str, Box<dyn Fn() -> Option<Result<T, String>>>); 3] = [
            ("json-reader", Box::new(|| serde_json::to_string(v).ok().map(|s| serde_json::from_reader::<_, T>(s.as_bytes()).map_err(|e| e.to_string())))),
            ("json-value", Box::new(|| serde_json::to_value(v).ok().map(|val| serde_json::from_value::<T>(val).map_err(|e| e.to_string())))),
            ("cbor-reader", Box::new(|| serde_cbor::to_vec(v).ok().map(|b| serde_cbor::from_reader::<T, _>(&b[..]).map_err(|e| e.to_string())))),
        ];
        for (route, f) in routes.iter() {
            match guard(|| f()) {
                Ok(Some(Ok(back))) => {
                    ctx.check(back == *v, &format!("{}-roundtrip-differs/{}", route, name), || json!({"value": short(v), "back": short(&back)}));
                }
                Ok(Some(Err(e))) => ctx.violation(&format!("{}-own-output-rejected/{}/{}", route, name, err_class(&e)), json!({"err": e, "value": short(v)})),
                Ok(None) => {}
                Err(p) => ctx.panic_violation(&format!("{}::<{}>", route, name), &p, json!({"value": short(v)})),
            }
        }
        ctx.count("non-borrowing-deserializer-routes");
    }
    // CBOR (binary self-describing; not human readable)
    ctx.eval();
    match guard(|| serde_cbor::to_vec(v)) {
        Ok(Ok(b)) => match guard(|| serde_cbor::from_slice::<T>(&b)) {
            Ok(Ok(back)) => {
                ctx.check(back == *v, &format!("cbor-roundtrip-differs/{}", name), || json!({"value": short(v), "cbor": hex_short(&b), "back": short(&back)}));
            }
            Ok(Err(e)) => ctx.violation(&format!("cbor-own-output-rejected/{}/{}", name, err_class(&e.to_string())), json!({"err": e.to_string(), "cbor": hex_short(&b)})),
            Err(p) => ctx.panic_violation(&format!("serde_cbor::from_slice::<{}>", name), &p, json!({"cbor": hex_short(&b)})),
        },
        Ok(Err(e)) => ctx.violation(&format!("cbor-serialize-failed/{}", name), json!({"err": e.to_string(), "value": short(v)})),
        Err(p) => ctx.panic_violation(&format!("serde_cbor::to_vec::<{}>", name), &p, json!({"value": short(v)})),
    }
    ctx.count(&format!("serde/{}", name));
}

/// Display -> FromStr round trip
pub fn text_rt<T: Display + FromStr + PartialEq + Debug>(ctx: &mut Ctx, name: &str, v: &T)
where
    <T as FromStr>::Err: Debug,
{
    ctx.eval();
    let s = match guard(|| v.to_string()) {
        Ok(s) => s,
        Err(p) => {
            ctx.panic_violation(&format!("{}::to_string", name), &p, json!({"value": short(v)}));
            return;
        }
    };
    match guard(|| T::from_str(&s)) {
        Ok(Ok(back)) => {
            ctx.check(back == *v, &format!("display-fromstr-differs/{}", name), || json!({"value": short(v), "text": s.chars().take(300).collect::<String>(), "back": short(&back)}));
        }
        Ok(Err(e)) => ctx.violation(&format!("own-display-rejected-by-fromstr/{}", name), json!({"text": s.chars().take(300).collect::<String>(), "err": format!("{:?}", e).chars().take(200).collect::<String>(), "value": short(v)})),
        Err(p) => ctx.panic_violation(&format!("{}::from_str", name), &p, json!({"text": s.chars().take(300).collect::<String>()})),
    }
    ctx.count(&format!("text/{}", name));
}

pub fn run(ctx: &mut Ctx) {
    let n = ctx.budget(6_000, 250_000);
    ctx.phase("consensus-types", n, |ctx, k| {
        let d = TxDials { wit_mask: (k % 64) as u8, ..TxDials::default() };
        match k % 6 {
            0 | 1 => {
                let t = gen::tx(&mut ctx.rng, &d);
                ctx.shape(("tx", gen::tx_shape(&t)));
                if k < 12 {
                    ctx.sample(&format!("tx-{}", k), json!({"json": serde_json::to_string(&t).unwrap_or_default().chars().take(500).collect::<String>()}));
                }
                serde_rt(ctx, "Transaction", &t);
                if let Some(i) = t.input.first() {
                    serde_rt(ctx, "TxIn", i);
                    serde_rt(ctx, "TxInWitness", &i.witness);
                    serde_rt(ctx, "AssetIssuance", &i.asset_issuance);
                    serde_rt(ctx, "OutPoint", &i.previous_output);
                    text_rt(ctx, "OutPoint", &i.previous_output);
                    serde_rt(ctx, "Sequence", &i.sequence);
                    text_rt(ctx, "Sequence", &i.sequence);
                    serde_rt(ctx, "Script", &i.script_sig);
                }
                if let Some(o) = t.output.first() {
                    serde_rt(ctx, "TxOut", o);
                    serde_rt(ctx, "TxOutWitness", &o.witness);
                    serde_rt(ctx, "Asset", &o.asset);
                    serde_rt(ctx, "Value", &o.value);
                    serde_rt(ctx, "Nonce", &o.nonce);
                    serde_rt(ctx, "Script", &o.script_pubkey);
                }
                serde_rt(ctx, "LockTime", &t.lock_time);
                text_rt(ctx, "LockTime", &t.lock_time);
            }
            2 => {
                let h = gen::header(&mut ctx.rng);
                let (cv, pv) = match &h.ext {
                    elements::BlockExtData::Dynafed { current, proposed, .. } => {
                        serde_rt(ctx, "dynafed::Params", current);
                        serde_rt(ctx, "dynafed::Params", proposed);
                        (1 + current.is_compact() as u8 + 2 * current.is_full() as u8, 1 + proposed.is_compact() as u8 + 2 * proposed.is_full() as u8)
                    }
                    _ => (0, 0),
                };
                ctx.shape(("hdr", cv, pv));
                serde_rt(ctx, "BlockHeader", &h);
                serde_rt(ctx, "BlockExtData", &h.ext);
                // full params with an empty / non-empty extension space, explicitly
                for ext_n in [0usize, 1, 3] {
                    let mut f = gen::full_params(&mut ctx.rng, false);
                    f.extension_space = (0..ext_n).map(|_| gen::bytes(&mut ctx.rng, 33)).collect();
                    serde_rt(ctx, "dynafed::Params", &elements::dynafed::Params::Full(f));
                }
                // byte fields whose content is itself text (ASCII hex digits, printable ASCII, valid
                // UTF-8): a reader must not reinterpret them
                {
                    let mut f = gen::full_params(&mut ctx.rng, false);
                    let texty = |r: &mut gen::Rg| -> Vec<u8> {
                        let n = 2 * r.gen_range(1..6usize);
                        match r.gen_range(0..3) {
                            0 => (0..n).map(|_| *gen::pick(r, b"0123456789abcdef")).collect(),
                            1 => (0..n).map(|_| *gen::pick(r, b"0123456789ABCDEF")).collect(),
                            _ => (0..n).map(|_| r.gen_range(0x20..0x7fu8)).collect(),
                        }
                    };
                    f.fedpegscript = texty(&mut ctx.rng);
                    f.extension_space = (0..ctx.rng.gen_range(1..3)).map(|_| texty(&mut ctx.rng)).collect();
                    f.signblockscript = elements::Script::from(texty(&mut ctx.rng));
                    f.fedpeg_program = elements::bitcoin::ScriptBuf::from_bytes(texty(&mut ctx.rng));
                    ctx.shape(("params-text-like", f.extension_space.len()));
                    serde_rt(ctx, "dynafed::Params", &elements::dynafed::Params::Full(f.clone()));
                    let mut h2 = h.clone();
                    h2.ext = elements::BlockExtData::Dynafed { current: elements::dynafed::Params::Full(f), proposed: elements::dynafed::Params::Null, signblock_witness: vec![texty(&mut ctx.rng)] };
                    serde_rt(ctx, "BlockHeader", &h2);
                }
            }
            3 => {
                let b = gen::block(&mut ctx.rng, 3);
                ctx.shape(("block", b.txdata.len(), b.header.is_dynafed()));
                serde_rt(ctx, "Block", &b);
            }
            4 => {
                // all variants of the confidential types, blinding factors, secrets
                for v in 0..3u8 {
                    let a = gen::asset_v(&mut ctx.rng, v);
                    serde_rt(ctx, "Asset", &a);
                    let a = gen::value_v(&mut ctx.rng, v);
                    serde_rt(ctx, "Value", &a);
                    let a = gen::nonce_v(&mut ctx.rng, v);
                    serde_rt(ctx, "Nonce", &a);
                }
                let abf = if k % 12 == 4 { AssetBlindingFactor::zero() } else { AssetBlindingFactor::new(&mut ctx.rng) };
                let vbf = if k % 12 == 4 { ValueBlindingFactor::zero() } else { ValueBlindingFactor::new(&mut ctx.rng) };
                serde_rt(ctx, "AssetBlindingFactor", &abf);
                text_rt(ctx, "AssetBlindingFactor", &abf);
                serde_rt(ctx, "ValueBlindingFactor", &vbf);
                text_rt(ctx, "ValueBlindingFactor", &vbf);
                let sec = TxOutSecrets::new(gen::asset_id(&mut ctx.rng), abf, ctx.rng.gen(), vbf);
                serde_rt(ctx, "TxOutSecrets", &sec);
                ctx.shape(("conf", k % 12));
            }
            _ => {
                // hash newtypes, midstate wrappers, locktimes, sighash types
                let b = gen::arr32(&mut ctx.rng);
                macro_rules! both {
                    ($name:expr, $v:expr) => {{
                        let v = $v;
                        serde_rt(ctx, $name, &v);
                        text_rt(ctx, $name, &v);
                    }};
                }
                both!("Txid", Txid::from_byte_array(b));
                both!("Wtxid", Wtxid::from_byte_array(b));
                both!("BlockHash", BlockHash::from_byte_array(b));
                both!("TxMerkleNode", TxMerkleNode::from_byte_array(b));
                both!("WScriptHash", WScriptHash::from_byte_array(b));
                both!("ScriptHash", ScriptHash::from_byte_array(gen::arr20(&mut ctx.rng)));
                both!("ContractHash", ContractHash::from_byte_array(b));
                both!("AssetId", AssetId::from_byte_array(b));
                both!("AssetEntropy", AssetEntropy::from_byte_array(b));
                both!("ParamsRoot", elements::dynafed::ParamsRoot::from_byte_array(b));
                both!("ElidedRoot", elements::dynafed::ElidedRoot::from_byte_array(b));
                both!("DynafedRoot", elements::DynafedRoot::from_byte_array(b));
                both!("TapLeafHash", elements::taproot::TapLeafHash::from_byte_array(b));
                both!("TapNodeHash", elements::taproot::TapNodeHash::from_byte_array(b));
                both!("TapTweakHash", elements::taproot::TapTweakHash::from_byte_array(b));
                let n: u32 = match ctx.rng.gen_range(0..5) {
                    0 => 0,
                    1 => 499_999_999,
                    2 => 500_000_000,
                    3 => u32::MAX,
                    _ => ctx.rng.gen(),
                };
                both!("LockTime", LockTime::from_consensus(n));
                both!("Sequence", Sequence(n));
                // a free-standing outpoint carries any 32-bit index (the flag bits belong to TxIn)
                let vout = match ctx.rng.gen_range(0..5) {
                    0 => 1u32 << 30,
                    1 => (1u32 << 31) | ctx.rng.gen_range(0..8),
                    2 => u32::MAX,
                    _ => n,
                };
                both!("OutPoint", OutPoint { txid: Txid::from_byte_array(gen::arr32(&mut ctx.rng)), vout });
                if n < 500_000_000 {
                    let h = elements::locktime::Height::from_consensus(n).unwrap();
                    both!("locktime::Height", h);
                    // the same lock time reached through the other constructors
                    both!("LockTime", LockTime::from(h));
                    both!("LockTime", LockTime::from_height(n).unwrap());
                } else {
                    let t = elements::locktime::Time::from_consensus(n).unwrap();
                    both!("locktime::Time", t);
                    both!("LockTime", LockTime::from(t));
                    both!("LockTime", LockTime::from_time(n).unwrap());
                }
                for t in super::c03::ECDSA_TYPES {
                    both!("EcdsaSighashType", t);
                }
                both!("SchnorrSighashType", SchnorrSighashType::Reserved);
                for t in super::c03::SCHNORR_TYPES {
                    both!("SchnorrSighashType", t);
                }
                both!("SchnorrSighashType", SchnorrSighashType::Reserved);
                // PSET sighash type over all u32 classes
                let raw = match ctx.rng.gen_range(0..6) {
                    0 => *gen::pick(&mut ctx.rng, &[0u32, 1, 2, 3, 0x81, 0x82, 0x83]),
                    1 => *gen::pick(&mut ctx.rng, &[0x100u32, 0x101, 0x102, 0x103, 0x181, 0x182, 0x183, 0x1_0001]),
                    2 => *gen::pick(&mut ctx.rng, &[4u32, 0x41, 0x80, 0x84, 0xff, 0x1ff]),
                    3 => u32::MAX,
                    _ => ctx.rng.gen(),
                };
                both!("PsbtSighashType", elements::pset::PsbtSighashType::from_u32(raw));
                ctx.shape(("newtypes", raw.min(0x200), n >= 500_000_000));
            }
        }
    });

    let n = ctx.budget(6_000, 200_000);
    ctx.phase("addresses", n, |ctx, k| {
        let net = (k % 3) as usize;
        let p = gen_payload(&mut ctx.rng, k / 3);
        let blinder = if (k / 24) % 2 == 0 { None } else { Some(gen::public_key(&mut ctx.rng)) };
        let a = make_address(net, &p, blinder);
        serde_rt(ctx, "Address", &a);
        text_rt(ctx, "Address", &a);
        ctx.shape(("addr", net, format!("{:?}", p).len().min(60), blinder.is_some()));
    });

    // PSET maps and whole PSETs (base64 text form too)
    let n = ctx.budget(3_000, 120_000);
    ctx.phase("psets", n, |ctx, k| {
        let dens = match k % 3 {
            0 => P(1, 8),
            1 => P(1, 2),
            _ => P(1, 1),
        };
        let mut ps = gp::pset(&mut ctx.rng, dens, 2, 2);
        if k % 4 == 3 {
            // raw keys / values whose bytes look like text (hex digits, printable ASCII): a reader
            // must not reinterpret them
            let texty = |r: &mut gen::Rg| -> Vec<u8> {
                let n = 2 * r.gen_range(1..6usize);
                match r.gen_range(0..3) {
                    0 => (0..n).map(|_| *gen::pick(r, b"0123456789abcdef")).collect(),
                    1 => (0..n).map(|_| *gen::pick(r, b"0123456789ABCDEF")).collect(),
                    _ => (0..n).map(|_| r.gen_range(0x20..0x7fu8)).collect(),
                }
            };
            let mut uk = gp::unknown_key(&mut ctx.rng);
            uk.key = texty(&mut ctx.rng);
            let mut pk = gp::prop_key(&mut ctx.rng);
            pk.key = texty(&mut ctx.rng);
            if pk.prefix != b"pset" {
                pk.prefix = texty(&mut ctx.rng);
            }
            let (v1, v2) = (texty(&mut ctx.rng), texty(&mut ctx.rng));
            match ctx.rng.gen_range(0..3) {
                0 => {
                    ps.global.unknown.insert(uk, v1);
                    ps.global.proprietary.insert(pk, v2);
                }
                1 if ps.n_inputs() > 0 => {
                    ps.inputs_mut()[0].unknown.insert(uk, v1);
                    ps.inputs_mut()[0].proprietary.insert(pk, v2);
                }
                _ if ps.n_outputs() > 0 => {
                    ps.outputs_mut()[0].unknown.insert(uk, v1);
                    ps.outputs_mut()[0].proprietary.insert(pk, v2);
                }
                _ => {
                    ps.global.unknown.insert(uk, v1);
                }
            }
            ctx.count("psets-with-text-like-raw-pairs");
        }
        let ps = ps;
        for i in ps.inputs() {
            ctx.shape(("in", gp::input_shape(i)));
            serde_rt(ctx, "pset::Input", i);
        }
        for o in ps.outputs() {
            ctx.shape(("out", gp::output_shape(o)));
            serde_rt(ctx, "pset::Output", o);
        }
        serde_rt(ctx, "PartiallySignedTransaction", &ps);
        text_rt(ctx, "PartiallySignedTransaction", &ps);
        // raw framing types
        let pk = gp::prop_key(&mut ctx.rng);
        serde_rt(ctx, "pset::raw::ProprietaryKey", &pk);
        serde_rt(ctx, "pset::raw::Key", &pk.to_key());
        // taproot helper types used inside PSETs
        let cb = gp::control_block(&mut ctx.rng);
        serde_rt(ctx, "ControlBlock", &cb);
        let ss = gp::schnorr_sig(&mut ctx.rng);
        serde_rt(ctx, "SchnorrSig", &ss);
        let lv = gp::leaf_version(&mut ctx.rng);
        serde_rt(ctx, "LeafVersion", &lv);
    });
}
