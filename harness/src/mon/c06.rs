//! C06 — addresses round-trip through text, are canonical, and name exactly one network.
use crate::gen::{self, Rg};
use crate::refmodel::addr::{self, Net, RPayload, Variant, NETS};
use crate::rt::{guard, hex, Ctx};
use elements::address::{Address, AddressParams, Payload};
use elements::hashes::Hash;
use rand::Rng;
use serde_json::json;
use std::str::FromStr;

pub fn params_of(i: usize) -> &'static AddressParams {
    match i {
        0 => &AddressParams::LIQUID,
        1 => &AddressParams::ELEMENTS,
        _ => &AddressParams::LIQUID_TESTNET,
    }
}

pub fn net_index(p: &AddressParams) -> Option<usize> {
    (0..3).find(|i| params_of(*i) == p)
}

pub fn rpayload_of(a: &Address) -> RPayload {
    match &a.payload {
        Payload::PubkeyHash(h) => RPayload::Pkh(elements::bitcoin::hashes::Hash::to_byte_array(*h)),
        Payload::ScriptHash(h) => RPayload::Sh(h.to_byte_array()),
        Payload::WitnessProgram { version, program } => RPayload::Wit(version.to_u8(), program.clone()),
    }
}

pub fn make_address(net: usize, p: &RPayload, blinder: Option<elements::secp256k1_zkp::PublicKey>) -> Address {
    Address {
        params: params_of(net),
        payload: match p {
            RPayload::Pkh(h) => Payload::PubkeyHash(<elements::PubkeyHash as elements::bitcoin::hashes::Hash>::from_byte_array(*h)),
            RPayload::Sh(h) => Payload::ScriptHash(elements::ScriptHash::from_byte_array(*h)),
            RPayload::Wit(v, prog) => Payload::WitnessProgram { version: bech32::Fe32::try_from(*v).unwrap(), program: prog.clone() },
        },
        blinding_pubkey: blinder,
    }
}

pub fn gen_payload(r: &mut Rg, k: u64) -> RPayload {
    match k % 8 {
        0 => RPayload::Pkh(gen::arr20(r)),
        1 => RPayload::Sh(gen::arr20(r)),
        2 => RPayload::Wit(0, gen::bytes(r, 20)),
        3 => RPayload::Wit(0, gen::bytes(r, 32)),
        4 => RPayload::Wit(1, gen::bytes(r, 32)),
        _ => {
            let v = r.gen_range(1..=16u8);
            let l = match r.gen_range(0..6) {
                0 => 2,
                1 => 40,
                2 => 39,
                3 => 3,
                _ => r.gen_range(2..=40),
            };
            RPayload::Wit(v, gen::bytes(r, l))
        }
    }
}

/// every way the library offers to parse a string; returns per-network results plus FromStr
pub fn parse_all(s: &str) -> (Vec<Option<Address>>, Option<Address>) {
    let per: Vec<Option<Address>> = (0..3).map(|i| Address::parse_with_params(s, params_of(i)).ok()).collect();
    (per, Address::from_str(s).ok())
}

fn structural_ok(a: &Address) -> Result<(), String> {
    match &a.payload {
        Payload::WitnessProgram { version, program } => {
            let v = version.to_u8();
            if v > 16 {
                return Err(format!("witness version {}", v));
            }
            if program.len() < 2 || program.len() > 40 {
                return Err(format!("program length {}", program.len()));
            }
            if v == 0 && program.len() != 20 && program.len() != 32 {
                return Err(format!("v0 program length {}", program.len()));
            }
            Ok(())
        }
        _ => Ok(()),
    }
}

/// A valid string (built by the reference encoder): all parse paths agree, exactly one
/// network accepts, canonical lower-case display.
fn check_valid(ctx: &mut Ctx, net: usize, p: &RPayload, blinder: Option<elements::secp256k1_zkp::PublicKey>, what: &str) {
    ctx.eval();
    let a = make_address(net, p, blinder);
    let bl = blinder.map(|b| b.serialize());
    let want = addr::address(&NETS[net], p, bl.as_ref());
    let kind = format!(
        "{}{}",
        match p {
            RPayload::Pkh(_) => "p2pkh".to_string(),
            RPayload::Sh(_) => "p2sh".to_string(),
            RPayload::Wit(v, prog) => format!("wit-v{}-len{}", if *v == 0 { "0" } else { "1+" }, if prog.len() == 2 || prog.len() == 40 { "edge" } else { "mid" }),
        },
        if blinder.is_some() { "/blinded" } else { "" }
    );
    let shown = match guard(|| a.to_string()) {
        Ok(s) => s,
        Err(pn) => {
            ctx.panic_violation("Address::to_string", &pn, json!({"payload": format!("{:?}", p), "net": net}));
            return;
        }
    };
    ctx.check(shown == want, &format!("display!=reference-encoder/{}", kind), || {
        json!({"expected": want, "observed": shown, "payload": format!("{:?}", p), "net": NETS[net].name, "blinder": bl.map(|b| hex(&b))})
    });
    let segwit = matches!(p, RPayload::Wit(..));
    let mut forms = vec![(want.clone(), "lower")];
    if segwit {
        forms.push((want.to_ascii_uppercase(), "upper"));
    }
    for (s, case) in forms {
        let (per, fs) = match guard(|| parse_all(&s)) {
            Ok(x) => x,
            Err(pn) => {
                ctx.panic_violation("Address::from_str/parse_with_params", &pn, json!({"string": s}));
                return;
            }
        };
        let accepted: Vec<usize> = (0..3).filter(|i| per[*i].is_some()).collect();
        ctx.check(accepted == vec![net], &format!("valid-address-network-set-wrong/{}/{}", kind, case), || {
            json!({"string": s, "expected_network": NETS[net].name, "accepted_under": accepted.iter().map(|i| NETS[*i].name).collect::<Vec<_>>()})
        });
        match &fs {
            Some(b) => {
                ctx.check(*b == a, &format!("parse(display)!=address/{}/{}", kind, case), || json!({"string": s, "parsed": format!("{:?}", b), "what": what}));
                let back = b.to_string();
                ctx.check(back == want, &format!("display(parse(s))!=lowercase(s)/{}/{}", kind, case), || json!({"string": s, "redisplayed": back}));
                if let Err(e) = structural_ok(b) {
                    ctx.violation(&format!("parsed-address-violates-structure/{}", kind), json!({"string": s, "why": e}));
                }
            }
            None => ctx.violation(&format!("valid-address-rejected-by-from_str/{}/{}", kind, case), json!({"string": s, "payload": format!("{:?}", p), "net": NETS[net].name})),
        }
        if let Some(Some(b)) = per.get(net) {
            ctx.check(*b == a, &format!("parse_with_params!=address/{}/{}", kind, case), || json!({"string": s}));
        }
    }
    if segwit {
        // mixed case must be refused
        let mut mixed = want.clone().into_bytes();
        let pos = mixed.iter().rposition(|c| c.is_ascii_lowercase()).unwrap();
        mixed[pos] = mixed[pos].to_ascii_uppercase();
        let mixed = String::from_utf8(mixed).unwrap();
        check_invalid(ctx, &mixed, "mixed-case");
    }
    ctx.shape((kind, net, match p { RPayload::Wit(v, prog) => (*v, prog.len()), _ => (99, 20) }, what.len()));
    ctx.count(&format!("valid/{}", what));
}

/// A string that violates the rules by construction: nothing may accept it.
fn check_invalid(ctx: &mut Ctx, s: &str, why: &str) {
    ctx.eval();
    let (per, fs) = match guard(|| parse_all(s)) {
        Ok(x) => x,
        Err(pn) => {
            ctx.panic_violation("Address::from_str/parse_with_params", &pn, json!({"string": s, "class": why}));
            return;
        }
    };
    let accepted: Vec<&str> = (0..3).filter(|i| per[*i].is_some()).map(|i| NETS[i].name).collect();
    if !accepted.is_empty() || fs.is_some() {
        ctx.violation(
            &format!("near-miss-accepted/{}", why),
            json!({"string": s, "class": why, "accepted_under": accepted, "from_str": fs.as_ref().map(|a| format!("{:?}", a)),
                   "redisplayed": fs.as_ref().map(|a| a.to_string())}),
        );
    }
    ctx.count(&format!("near-miss/{}", why));
    ctx.shape(("near", why.to_string()));
}

pub fn run(ctx: &mut Ctx) {
    let n = ctx.budget(30_000, 1_000_000);
    ctx.phase("valid", n, |ctx, k| {
        let net = (k % 3) as usize;
        let p = gen_payload(&mut ctx.rng, k / 3);
        let blinder = if (k / 24) % 2 == 0 { None } else { Some(gen::public_key(&mut ctx.rng)) };
        if k < 24 {
            let bl = blinder.map(|b| b.serialize());
            ctx.sample(&format!("address-{}", k), json!({"string": addr::address(&NETS[net], &p, bl.as_ref()), "net": NETS[net].name}));
        }
        check_valid(ctx, net, &p, blinder, "struct-literal");
    });

    // every witness version x every program length 2..=40 (20/32 for v0) x 3 networks x {plain, blinded}
    ctx.seen("exhaustive_subspaces", "C06: witness versions 0..=16 x program lengths 2..=40 x 3 networks x {plain, blinded}");
    ctx.phase("version-length-grid", 17 * 39 * 3 * 2, |ctx, k| {
        let v = (k % 17) as u8;
        let l = 2 + ((k / 17) % 39) as usize;
        let net = ((k / (17 * 39)) % 3) as usize;
        let blinded = k / (17 * 39 * 3) == 1;
        let prog = gen::bytes(&mut ctx.rng, l);
        let blinder = if blinded { Some(gen::public_key(&mut ctx.rng)) } else { None };
        if v == 0 && l != 20 && l != 32 {
            // v0 with a non-standard length: a near miss with a valid checksum
            let bl = blinder.map(|b| b.serialize());
            let s = addr::address(&NETS[net], &RPayload::Wit(0, prog), bl.as_ref());
            check_invalid(ctx, &s, if blinded { "v0-bad-length/blinded" } else { "v0-bad-length" });
        } else {
            check_valid(ctx, net, &RPayload::Wit(v, prog), blinder, "grid");
        }
    });

    // constructors
    let n = ctx.budget(2_000, 50_000);
    ctx.phase("constructors", n, |ctx, k| {
        let net = (k % 3) as usize;
        let params = params_of(net);
        let pk = elements::bitcoin::PublicKey::new(gen::public_key(&mut ctx.rng));
        let blinder = if k % 2 == 0 { None } else { Some(gen::public_key(&mut ctx.rng)) };
        let script = elements::Script::from(gen::bytes(&mut ctx.rng, 30));
        let a = match (k / 6) % 8 {
            0 => Address::p2pkh(&pk, blinder, params),
            1 => Address::p2sh(&script, blinder, params),
            2 => Address::p2wpkh(&pk, blinder, params),
            3 => Address::p2shwpkh(&pk, blinder, params),
            4 => Address::p2wsh(&script, blinder, params),
            5 => Address::p2shwsh(&script, blinder, params),
            6 => {
                let (x, _) = pk.inner.x_only_public_key();
                gen::with_secp(|s| Address::p2tr(s, x, None, blinder, params))
            }
            _ => {
                let (x, _) = pk.inner.x_only_public_key();
                use elements::schnorr::TapTweak;
                let (tw, _) = gen::with_secp(|s| x.tap_tweak(s, None));
                Address::p2tr_tweaked(tw, blinder, params)
            }
        };
        let p = rpayload_of(&a);
        check_valid(ctx, net, &p, blinder, "constructor");
        ctx.check(a.to_unconfidential().blinding_pubkey.is_none() && a.to_unconfidential().payload == a.payload, "to_unconfidential-changes-payload", || json!({}));
    });

    // near misses, each with a valid checksum for what it claims to be
    let n = ctx.budget(30_000, 800_000);
    ctx.phase("near-misses", n, |ctx, k| {
        let net = (k % 3) as usize;
        let nt: &Net = &NETS[net];
        let blinded = (k / 3) % 2 == 1;
        let key = gen::public_key(&mut ctx.rng).serialize();
        let hrp = if blinded { nt.blech_hrp } else { nt.hrp };
        let with_key = |prog: &[u8]| -> Vec<u8> {
            if blinded {
                let mut v = key.to_vec();
                v.extend_from_slice(prog);
                v
            } else {
                prog.to_vec()
            }
        };
        let sfx = if blinded { "/blinded" } else { "" };
        match (k / 6) % 14 {
            0 => {
                // wrong checksum variant for the version
                let v = ctx.rng.gen_range(0..=16u8);
                let l = if v == 0 { 20 } else { 32 };
                let wrong = match addr::variant_for(v, blinded) {
                    Variant::Bech32 => Variant::Bech32m,
                    Variant::Bech32m => Variant::Bech32,
                    Variant::Blech32 => Variant::Blech32m,
                    Variant::Blech32m => Variant::Blech32,
                };
                let prog = gen::bytes(&mut ctx.rng, l);
                let s = addr::segwit(wrong, hrp, v, &with_key(&prog));
                check_invalid(ctx, &s, &format!("wrong-checksum-variant/v{}{}", if v == 0 { "0" } else { "1+" }, sfx));
            }
            1 => {
                let v = ctx.rng.gen_range(17..32u8);
                let prog = gen::bytes(&mut ctx.rng, 32);
                for var in [addr::variant_for(1, blinded), addr::variant_for(0, blinded)] {
                    let s = addr::segwit(var, hrp, v, &with_key(&prog));
                    check_invalid(ctx, &s, &format!("version-17..31{}", sfx));
                }
            }
            2 => {
                let l = *gen::pick(&mut ctx.rng, &[0usize, 1]);
                let v = ctx.rng.gen_range(1..=16u8);
                let prog = gen::bytes(&mut ctx.rng, l);
                let s = addr::segwit(addr::variant_for(v, blinded), hrp, v, &with_key(&prog));
                check_invalid(ctx, &s, &format!("program-too-short/len{}{}", l, sfx));
            }
            3 => {
                let l = *gen::pick(&mut ctx.rng, &[41usize, 42, 50]);
                let v = ctx.rng.gen_range(1..=16u8);
                let prog = gen::bytes(&mut ctx.rng, l);
                let s = addr::segwit(addr::variant_for(v, blinded), hrp, v, &with_key(&prog));
                check_invalid(ctx, &s, &format!("program-too-long{}", sfx));
            }
            4 => {
                // non-zero padding bits
                let v = ctx.rng.gen_range(0..=16u8);
                // every program length, so that 1..4 padding bits all occur
                let l = if v == 0 { *gen::pick(&mut ctx.rng, &[20usize, 32]) } else { ctx.rng.gen_range(2..=40) };
                let payload = with_key(&gen::bytes(&mut ctx.rng, l));
                let mut d = vec![v];
                d.extend(addr::to5(&payload));
                let padbits = (payload.len() * 8) % 5;
                if padbits == 0 {
                    return;
                }
                let pad = 5 - padbits;
                let last = d.len() - 1;
                let bit = ctx.rng.gen_range(0..pad);
                d[last] |= 1 << bit;
                let s = addr::encode5(addr::variant_for(v, blinded), hrp, &d);
                check_invalid(ctx, &s, &format!("nonzero-padding/{}-padding-bits/bit{}{}", pad, bit, sfx));
            }
            5 => {
                // a superfluous zero symbol (5 or more padding bits)
                let v = ctx.rng.gen_range(0..=16u8);
                let l = if v == 0 { 20 } else { 32 };
                let payload = with_key(&gen::bytes(&mut ctx.rng, l));
                let mut d = vec![v];
                d.extend(addr::to5(&payload));
                d.push(0);
                let padbits = ((d.len() - 1) * 5) % 8;
                let s = addr::encode5(addr::variant_for(v, blinded), hrp, &d);
                if padbits >= 5 || v == 0 {
                    check_invalid(ctx, &s, &format!("excess-padding{}", sfx));
                }
            }
            6 if blinded => {
                // blinding key bytes that are not a curve point
                let v = ctx.rng.gen_range(0..=16u8);
                let l = if v == 0 { 32 } else { 32 };
                let mut payload = vec![*gen::pick(&mut ctx.rng, &[0u8, 4, 5, 2])];
                let mut x = gen::bytes(&mut ctx.rng, 32);
                if payload[0] == 2 {
                    // x = 0 is not on the curve... use a value >= field size
                    x = vec![0xff; 32];
                }
                payload.extend(x);
                payload.extend(gen::bytes(&mut ctx.rng, l));
                let s = addr::segwit(addr::variant_for(v, true), nt.blech_hrp, v, &payload);
                check_invalid(ctx, &s, "invalid-blinding-key/segwit");
            }
            7 => {
                // foreign or neighbouring human-readable parts with a checksum valid for them
                let h = *gen::pick(&mut ctx.rng, &["bc", "tb", "bcrt", "e", "er", "ertt", "exx", "l", "lqq", "t", "tl", "te", "tlqq", "x", "el1", "lq1", "ex1"]);
                let v = ctx.rng.gen_range(0..=16u8);
                let l = if v == 0 { 20 } else { 32 };
                let prog = gen::bytes(&mut ctx.rng, l);
                for bl in [false, true] {
                    let payload = if bl {
                        let mut p = key.to_vec();
                        p.extend_from_slice(&prog);
                        p
                    } else {
                        prog.clone()
                    };
                    let s = addr::segwit(addr::variant_for(v, bl), h, v, &payload);
                    check_invalid(ctx, &s, "foreign-hrp");
                }
            }
            8 => {
                // the other codec under this HRP (blech32 string with the unblinded HRP and vice versa)
                let v = ctx.rng.gen_range(0..=16u8);
                let l = if v == 0 { 20 } else { 32 };
                let prog = gen::bytes(&mut ctx.rng, l);
                let s = if blinded {
                    // unblinded-style (6-symbol checksum) under the blinded HRP
                    addr::segwit(addr::variant_for(v, false), nt.blech_hrp, v, &prog)
                } else {
                    let mut p = key.to_vec();
                    p.extend_from_slice(&prog);
                    addr::segwit(addr::variant_for(v, true), nt.hrp, v, &p)
                };
                check_invalid(ctx, &s, &format!("codec-hrp-mismatch{}", sfx));
            }
            9 => {
                // base58: wrong payload length
                let ver = if ctx.rng.gen_range(0..2) == 0 { nt.p2pkh } else { nt.p2sh };
                let l = *gen::pick(&mut ctx.rng, &[0usize, 19, 21, 32]);
                let mut p = vec![];
                if blinded {
                    p.push(nt.blinded);
                    p.push(ver);
                    p.extend_from_slice(&key);
                } else {
                    p.push(ver);
                }
                p.extend(gen::bytes(&mut ctx.rng, l));
                check_invalid(ctx, &addr::base58check(&p), &format!("base58-wrong-length{}", sfx));
            }
            10 => {
                // base58: version byte of no network / another network's inner prefix in a blinded address
                let mut p = vec![];
                if blinded && ctx.rng.gen_range(0..2) == 0 {
                    // blinded layout (55 bytes) with a valid inner prefix and key, but the outer byte is
                    // not this network's blinded prefix: its own p2pkh/p2sh byte, another network's
                    // blinded prefix, or a byte no network uses
                    let other = &NETS[(net + 1 + ctx.rng.gen_range(0..2usize)) % 3];
                    let outer = match ctx.rng.gen_range(0..4) {
                        0 => nt.p2pkh,
                        1 => nt.p2sh,
                        2 => other.blinded,
                        _ => loop {
                            let b: u8 = ctx.rng.gen();
                            if !NETS.iter().any(|n| n.p2pkh == b || n.p2sh == b || n.blinded == b) {
                                break b;
                            }
                        },
                    };
                    p.push(outer);
                    p.push(if ctx.rng.gen_range(0..2) == 0 { nt.p2pkh } else { nt.p2sh });
                    p.extend_from_slice(&key);
                    p.extend_from_slice(&gen::arr20(&mut ctx.rng));
                    check_invalid(ctx, &addr::base58check(&p), "base58-blinded-layout-with-foreign-outer-prefix");
                    return;
                } else if blinded {
                    let other = &NETS[(net + 1) % 3];
                    p.push(nt.blinded);
                    p.push(if ctx.rng.gen_range(0..2) == 0 { other.p2pkh } else { ctx.rng.gen() });
                    if p[1] == nt.p2pkh || p[1] == nt.p2sh {
                        return;
                    }
                    p.extend_from_slice(&key);
                } else {
                    let b: u8 = ctx.rng.gen();
                    if NETS.iter().any(|n| n.p2pkh == b || n.p2sh == b || n.blinded == b) {
                        return;
                    }
                    p.push(b);
                }
                p.extend_from_slice(&gen::arr20(&mut ctx.rng));
                check_invalid(ctx, &addr::base58check(&p), &format!("base58-foreign-version{}", sfx));
            }
            11 => {
                let ver = nt.p2pkh;
                let mut p = vec![];
                if blinded {
                    p.push(nt.blinded);
                    p.push(ver);
                    p.extend_from_slice(&key);
                } else {
                    p.push(ver);
                }
                p.extend_from_slice(&gen::arr20(&mut ctx.rng));
                check_invalid(ctx, &addr::base58check_bad(&p), &format!("base58-bad-checksum{}", sfx));
            }
            12 if blinded => {
                let mut p = vec![nt.blinded, nt.p2sh, 7];
                p.extend(gen::bytes(&mut ctx.rng, 32));
                p.extend_from_slice(&gen::arr20(&mut ctx.rng));
                check_invalid(ctx, &addr::base58check(&p), "invalid-blinding-key/base58");
            }
            _ => {
                // checksum of a valid address damaged in one symbol (sanity: detected)
                let v = ctx.rng.gen_range(0..=16u8);
                let l = if v == 0 { 32 } else { 32 };
                let s = addr::segwit(addr::variant_for(v, blinded), hrp, v, &with_key(&gen::bytes(&mut ctx.rng, l)));
                let mut b = s.into_bytes();
                let pos = b.len() - 1 - ctx.rng.gen_range(0..6);
                let cur = addr::CHARSET.iter().position(|c| *c == b[pos]).unwrap();
                b[pos] = addr::CHARSET[(cur + 1 + ctx.rng.gen_range(0..31)) % 32];
                check_invalid(ctx, &String::from_utf8(b).unwrap(), &format!("damaged-checksum{}", sfx));
            }
        }
    });
}
