//! C02 — transaction and block ids are the consensus hashes and ignore witness data.
use crate::gen::{self, Rg, TxDials};
use crate::refmodel::{ser, sha};
use crate::rt::{hex, hex_short, Ctx};
use elements::confidential as conf;
use elements::encode::serialize;
use elements::hashes::Hash;
use elements::{BlockExtData, BlockHeader, Script, Transaction};
use rand::Rng;
use serde_json::json;

fn ref_txid(t: &Transaction) -> [u8; 32] {
    sha::sha256d(&ser::rtx(t).stripped())
}
fn ref_wtxid(t: &Transaction) -> [u8; 32] {
    sha::sha256d(&ser::rtx(t).full())
}
fn ref_block_hash(h: &BlockHeader) -> [u8; 32] {
    sha::sha256d(&ser::rheader(h).hashed())
}

fn check_tx(ctx: &mut Ctx, t: &Transaction, what: &str) -> ([u8; 32], [u8; 32]) {
    ctx.eval();
    let txid = t.txid().to_byte_array();
    let wtxid = t.wtxid().to_byte_array();
    let d = || json!({"tx": hex_short(&serialize(t)), "what": what});
    ctx.check(txid == ref_txid(t), &format!("txid!=sha256d(stripped)/{}", what), || json!({"expected": hex(&ref_txid(t)), "observed": hex(&txid), "in": d()}));
    ctx.check(wtxid == ref_wtxid(t), &format!("wtxid!=sha256d(full)/{}", what), || json!({"expected": hex(&ref_wtxid(t)), "observed": hex(&wtxid), "in": d()}));
    let has_wit = ser::rtx(t).has_witness();
    ctx.check((wtxid == txid) == !has_wit, if has_wit { "wtxid==txid-with-witness" } else { "wtxid!=txid-without-witness" }, d);
    (txid, wtxid)
}

/// One single-field edit of a transaction. Returns a label. The classification
/// (witness-only or not) is decided by the reference model afterwards.
pub fn edit_tx(r: &mut Rg, t: &mut Transaction) -> Option<String> {
    let nin = t.input.len();
    let nout = t.output.len();
    let choice = r.gen_range(0..26);
    let d = TxDials::default();
    Some(match choice {
        0 => {
            t.version = t.version.wrapping_add(1 + r.gen_range(0..5));
            "version".into()
        }
        1 => {
            t.lock_time = elements::LockTime::from_consensus(t.lock_time.to_consensus_u32() ^ (1 << r.gen_range(0..32)));
            "lock_time".into()
        }
        2..=12 if nin > 0 => {
            let i = r.gen_range(0..nin);
            let inp = &mut t.input[i];
            match choice {
                2 => {
                    let mut b = inp.previous_output.txid.to_byte_array();
                    b[r.gen_range(0..32)] ^= 1 << r.gen_range(0..8);
                    inp.previous_output.txid = elements::Txid::from_byte_array(b);
                    "in.txid".into()
                }
                3 => {
                    if inp.previous_output.vout == 0xffff_ffff {
                        return None;
                    }
                    inp.previous_output.vout = (inp.previous_output.vout ^ (1 << r.gen_range(0..30))) & 0x3fff_ffff;
                    "in.vout".into()
                }
                4 => {
                    if inp.previous_output.vout == 0xffff_ffff {
                        return None;
                    }
                    inp.is_pegin = !inp.is_pegin;
                    "in.is_pegin".into()
                }
                5 => {
                    let mut b = inp.script_sig.to_bytes();
                    if b.is_empty() || r.gen_range(0..2) == 0 {
                        b.push(r.gen());
                    } else {
                        let k = r.gen_range(0..b.len());
                        b[k] ^= 1 << r.gen_range(0..8);
                    }
                    inp.script_sig = Script::from(b);
                    "in.script_sig".into()
                }
                6 => {
                    inp.sequence = elements::Sequence(inp.sequence.0 ^ (1 << r.gen_range(0..32)));
                    "in.sequence".into()
                }
                7 => {
                    // issuance sub-fields: only when an issuance is (or becomes) non-null
                    if inp.previous_output.vout == 0xffff_ffff {
                        return None;
                    }
                    if inp.asset_issuance.is_null() {
                        inp.asset_issuance = gen::issuance(r);
                        "in.issuance:add".into()
                    } else {
                        match r.gen_range(0..5) {
                            0 => {
                                inp.asset_issuance.asset_entropy[r.gen_range(0..32)] ^= 1;
                                "in.issuance.entropy".into()
                            }
                            1 => {
                                inp.asset_issuance.asset_blinding_nonce = gen::tweak(r);
                                "in.issuance.nonce".into()
                            }
                            2 => {
                                let old = inp.asset_issuance.amount;
                                loop {
                                    let v = { let vv = r.gen_range(1..3); gen::value_v(r, vv) };
                                    if v != old {
                                        inp.asset_issuance.amount = v;
                                        break;
                                    }
                                }
                                "in.issuance.amount".into()
                            }
                            3 => {
                                let old = inp.asset_issuance.inflation_keys;
                                loop {
                                    let v = { let vv = r.gen_range(1..3); gen::value_v(r, vv) };
                                    if v != old {
                                        inp.asset_issuance.inflation_keys = v;
                                        break;
                                    }
                                }
                                "in.issuance.keys".into()
                            }
                            _ => {
                                inp.asset_issuance = elements::AssetIssuance::null();
                                "in.issuance:remove".into()
                            }
                        }
                    }
                }
                8 => {
                    inp.witness.amount_rangeproof = match inp.witness.amount_rangeproof {
                        Some(_) if r.gen_range(0..2) == 0 => None,
                        _ => Some(gen::rangeproof(r, false)),
                    };
                    "W:in.amount_rangeproof".into()
                }
                9 => {
                    inp.witness.inflation_keys_rangeproof = match inp.witness.inflation_keys_rangeproof {
                        Some(_) if r.gen_range(0..2) == 0 => None,
                        _ => Some(gen::rangeproof(r, false)),
                    };
                    "W:in.keys_rangeproof".into()
                }
                10 => {
                    if !inp.witness.script_witness.is_empty() && r.gen_range(0..3) == 0 {
                        inp.witness.script_witness.clear();
                    } else {
                        inp.witness.script_witness.push(gen::bytes(r, 1 + (choice as usize)));
                    }
                    "W:in.script_witness".into()
                }
                11 => {
                    if !inp.witness.pegin_witness.is_empty() && r.gen_range(0..3) == 0 {
                        inp.witness.pegin_witness.clear();
                    } else {
                        inp.witness.pegin_witness.push(gen::bytes(r, 3));
                    }
                    "W:in.pegin_witness".into()
                }
                _ => {
                    // add a whole input
                    let n = gen::txin(r, &d, false);
                    t.input.push(n);
                    "in:add".into()
                }
            }
        }
        13..=20 if nout > 0 => {
            let i = r.gen_range(0..nout);
            let o = &mut t.output[i];
            match choice {
                13 => {
                    let old = o.asset;
                    loop {
                        let v = { let vv = r.gen_range(0..3); gen::asset_v(r, vv) };
                        if v != old {
                            o.asset = v;
                            break;
                        }
                    }
                    "out.asset".into()
                }
                14 => {
                    let old = o.value;
                    loop {
                        let v = { let vv = r.gen_range(0..3); gen::value_v(r, vv) };
                        if v != old {
                            o.value = v;
                            break;
                        }
                    }
                    "out.value".into()
                }
                15 => {
                    let old = o.nonce;
                    loop {
                        let v = { let vv = r.gen_range(0..3); gen::nonce_v(r, vv) };
                        if v != old {
                            o.nonce = v;
                            break;
                        }
                    }
                    "out.nonce".into()
                }
                16 => {
                    let mut b = o.script_pubkey.to_bytes();
                    if b.is_empty() || r.gen_range(0..2) == 0 {
                        b.push(r.gen());
                    } else {
                        let k = r.gen_range(0..b.len());
                        b[k] ^= 1 << r.gen_range(0..8);
                    }
                    o.script_pubkey = Script::from(b);
                    "out.script_pubkey".into()
                }
                17 => {
                    if let conf::Value::Explicit(v) = o.value {
                        o.value = conf::Value::Explicit(v ^ (1 << r.gen_range(0..64)));
                        "out.value.bit".into()
                    } else {
                        return None;
                    }
                }
                18 => {
                    o.witness.surjection_proof = match o.witness.surjection_proof {
                        Some(_) if r.gen_range(0..2) == 0 => None,
                        _ => Some(gen::surjectionproof(r)),
                    };
                    "W:out.surjection_proof".into()
                }
                19 => {
                    o.witness.rangeproof = match o.witness.rangeproof {
                        Some(_) if r.gen_range(0..2) == 0 => None,
                        _ => Some(gen::rangeproof(r, false)),
                    };
                    "W:out.rangeproof".into()
                }
                _ => {
                    t.output.remove(i);
                    "out:remove".into()
                }
            }
        }
        21 => {
            let o = gen::txout(r, &TxDials { wit_mask: 0, ..d });
            t.output.push(o);
            "out:add".into()
        }
        22 if nin > 1 => {
            let a = r.gen_range(0..nin - 1);
            if ser::rtxin(&t.input[a]) == ser::rtxin(&t.input[a + 1]) {
                return None;
            }
            t.input.swap(a, a + 1);
            "in:swap".into()
        }
        23 if nout > 1 => {
            let a = r.gen_range(0..nout - 1);
            if ser::rtxout(&t.output[a]) == ser::rtxout(&t.output[a + 1]) {
                return None;
            }
            t.output.swap(a, a + 1);
            "out:swap".into()
        }
        24 => {
            // strip every witness at once
            for i in t.input.iter_mut() {
                i.witness = Default::default();
            }
            for o in t.output.iter_mut() {
                o.witness = Default::default();
            }
            "W:strip-all".into()
        }
        _ => return None,
    })
}

fn edit_header(r: &mut Rg, h: &mut BlockHeader) -> Option<String> {
    use elements::dynafed::Params;
    let c = r.gen_range(0..14);
    Some(match c {
        0 => {
            h.version = (h.version ^ (1 << r.gen_range(0..31))) & 0x7fff_ffff;
            "version".into()
        }
        1 => {
            let mut b = h.prev_blockhash.to_byte_array();
            b[r.gen_range(0..32)] ^= 1;
            h.prev_blockhash = elements::BlockHash::from_byte_array(b);
            "prev".into()
        }
        2 => {
            let mut b = h.merkle_root.to_byte_array();
            b[r.gen_range(0..32)] ^= 1;
            h.merkle_root = elements::TxMerkleNode::from_byte_array(b);
            "merkle_root".into()
        }
        3 => {
            h.time ^= 1 << r.gen_range(0..32);
            "time".into()
        }
        4 => {
            h.height ^= 1 << r.gen_range(0..32);
            "height".into()
        }
        5 | 6 | 7 => match &mut h.ext {
            BlockExtData::Proof { challenge, solution } => {
                if c == 5 {
                    let mut b = challenge.to_bytes();
                    b.push(r.gen());
                    *challenge = Script::from(b);
                    "challenge".into()
                } else {
                    let mut b = solution.to_bytes();
                    if c == 6 || b.is_empty() {
                        b.push(r.gen());
                    } else {
                        b.clear();
                    }
                    *solution = Script::from(b);
                    "W:solution".into()
                }
            }
            BlockExtData::Dynafed { signblock_witness, .. } => {
                if c == 5 && !signblock_witness.is_empty() {
                    signblock_witness.pop();
                } else {
                    signblock_witness.push(gen::bytes(r, c as usize));
                }
                "W:signblock_witness".into()
            }
        },
        8..=12 => match &mut h.ext {
            BlockExtData::Dynafed { current, proposed, .. } => {
                let which = if r.gen_range(0..2) == 0 { current } else { proposed };
                let label = match which {
                    Params::Null => {
                        *which = { let vv = r.gen_range(1..3); gen::params_v(r, vv) };
                        "params:null->set"
                    }
                    Params::Compact { signblockscript, signblock_witness_limit, elided_root } => match c {
                        8 => {
                            let mut b = signblockscript.to_bytes();
                            b.push(1);
                            *signblockscript = Script::from(b);
                            "params.compact.script"
                        }
                        9 => {
                            *signblock_witness_limit ^= 1 << r.gen_range(0..32);
                            "params.compact.limit"
                        }
                        10 => {
                            let mut b = elided_root.to_byte_array();
                            b[r.gen_range(0..32)] ^= 1;
                            *elided_root = elements::dynafed::ElidedRoot::from_byte_array(b);
                            "params.compact.elided_root"
                        }
                        11 => {
                            *which = Params::Null;
                            "params:compact->null"
                        }
                        _ => {
                            // same signblock data, full variant
                            let f = gen::full_params(r, false);
                            *which = Params::Full(f);
                            "params:compact->full"
                        }
                    },
                    Params::Full(f) => match c {
                        8 => {
                            let mut b = f.signblockscript.to_bytes();
                            b.push(1);
                            f.signblockscript = Script::from(b);
                            "params.full.script"
                        }
                        9 => {
                            f.signblock_witness_limit ^= 1 << r.gen_range(0..32);
                            "params.full.limit"
                        }
                        10 => {
                            let mut b = f.fedpeg_program.to_bytes();
                            b.push(7);
                            f.fedpeg_program = elements::bitcoin::ScriptBuf::from_bytes(b);
                            "params.full.fedpeg_program"
                        }
                        11 => {
                            f.fedpegscript.push(9);
                            "params.full.fedpegscript"
                        }
                        _ => {
                            if !f.extension_space.is_empty() && r.gen_range(0..2) == 0 {
                                let k = r.gen_range(0..f.extension_space.len());
                                f.extension_space[k].push(1);
                            } else {
                                f.extension_space.push(gen::bytes(r, 33));
                            }
                            "params.full.extension_space"
                        }
                    },
                };
                label.into()
            }
            _ => return None,
        },
        _ => {
            // switch variant proof <-> dynafed keeping the common fields
            h.ext = match &h.ext {
                BlockExtData::Proof { .. } => BlockExtData::Dynafed {
                    current: Params::Null,
                    proposed: Params::Null,
                    signblock_witness: vec![],
                },
                BlockExtData::Dynafed { .. } => BlockExtData::Proof { challenge: Script::new(), solution: Script::new() },
            };
            "ext-variant".into()
        }
    })
}

pub fn run(ctx: &mut Ctx) {
    let n = ctx.budget(16_000, 600_000);
    ctx.phase("tx-edits", n, |ctx, k| {
        let d = TxDials { wit_mask: (k % 64) as u8, ..TxDials::default() };
        let t = gen::tx(&mut ctx.rng, &d);
        let (txid, _wtxid) = check_tx(ctx, &t, "generated");
        ctx.shape(("tx", gen::tx_shape(&t)));
        if k < 20 {
            ctx.sample("tx", json!({"hex": hex_short(&serialize(&t)), "txid": hex(&txid)}));
        }
        let base_stripped = ser::rtx(&t).stripped();
        let base_full = ser::rtx(&t).full();
        for _ in 0..12 {
            let mut t2 = t.clone();
            let Some(label) = edit_tx(&mut ctx.rng, &mut t2) else { continue };
            let s2 = ser::rtx(&t2).stripped();
            let f2 = ser::rtx(&t2).full();
            if f2 == base_full {
                ctx.count("noop-edits-skipped");
                continue;
            }
            let (txid2, wtxid2) = check_tx(ctx, &t2, "edited");
            let witness_only = s2 == base_stripped;
            if witness_only {
                ctx.count(&format!("witness-only-edit/{}", label));
                ctx.check(txid2 == txid, &format!("txid-changed-by-witness-only-edit/{}", label), || {
                    json!({"edit": label, "before": hex_short(&base_full), "after": hex_short(&f2)})
                });
                ctx.check(wtxid2 != t.wtxid().to_byte_array(), &format!("wtxid-unchanged-by-witness-edit/{}", label), || {
                    json!({"edit": label, "before": hex_short(&base_full), "after": hex_short(&f2)})
                });
            } else {
                ctx.count(&format!("non-witness-edit/{}", label));
                ctx.check(txid2 != txid, &format!("txid-unchanged-by-non-witness-edit/{}", label), || {
                    json!({"edit": label, "before": hex_short(&base_full), "after": hex_short(&f2)})
                });
            }
            ctx.shape(("edit", label.clone(), witness_only));
        }
    });

    let n = ctx.budget(10_000, 300_000);
    ctx.phase("header-edits", n, |ctx, k| {
        let mut h = gen::header(&mut ctx.rng);
        if k % 25 == 0 {
            // signing data on both sides of the compact-size boundary: many / long witness elements
            match &mut h.ext {
                BlockExtData::Proof { solution, .. } => {
                    let l = *gen::pick(&mut ctx.rng, &[252usize, 253, 254, 1000]);
                    *solution = Script::from(gen::bytes(&mut ctx.rng, l));
                }
                BlockExtData::Dynafed { signblock_witness, .. } => {
                    let n = *gen::pick(&mut ctx.rng, &[1usize, 252, 253, 254]);
                    let l = if n == 1 { *gen::pick(&mut ctx.rng, &[252usize, 253, 300]) } else { 2 };
                    *signblock_witness = (0..n).map(|_| gen::bytes(&mut ctx.rng, l)).collect();
                }
            }
        }
        ctx.eval();
        let bh = h.block_hash().to_byte_array();
        let want = ref_block_hash(&h);
        ctx.check(bh == want, if h.is_dynafed() { "block_hash!=reference/dynafed" } else { "block_hash!=reference/proof" }, || {
            json!({"expected": hex(&want), "observed": hex(&bh), "header": hex_short(&serialize(&h))})
        });
        if k < 20 {
            ctx.sample("header", json!({"hex": hex_short(&serialize(&h)), "block_hash": hex(&bh)}));
        }
        let blk = elements::Block { header: h.clone(), txdata: vec![] };
        ctx.check(blk.block_hash().to_byte_array() == bh, "Block::block_hash!=header", || json!({}));
        // clear_witness removes exactly the data outside the hash
        let mut c = h.clone();
        c.clear_witness();
        ctx.check(c.block_hash().to_byte_array() == bh, "clear_witness-changes-hash", || json!({"header": hex_short(&serialize(&h))}));
        let rc = ser::rheader(&c);
        let cleared_ok = match &rc.ext {
            ser::RExt::Proof { solution, .. } => solution.is_empty(),
            ser::RExt::Dynafed { witness, .. } => witness.is_empty(),
        };
        ctx.check(cleared_ok, "clear_witness-leaves-witness-data", || json!({"header": hex_short(&serialize(&h)), "after": hex_short(&serialize(&c))}));
        // after clearing, the full serialization is the hash preimage plus an empty vector
        let mut pre = rc.hashed();
        pre.push(0);
        ctx.check(serialize(&c) == pre, "clear_witness-result!=hash-preimage+empty", || json!({"after": hex_short(&serialize(&c))}));
        let mut c2 = c.clone();
        // everything else must be untouched
        match (&mut c2.ext, &h.ext) {
            (BlockExtData::Proof { solution, .. }, BlockExtData::Proof { solution: s0, .. }) => *solution = s0.clone(),
            (BlockExtData::Dynafed { signblock_witness, .. }, BlockExtData::Dynafed { signblock_witness: w0, .. }) => *signblock_witness = w0.clone(),
            _ => {}
        }
        ctx.check(c2 == h, "clear_witness-touched-hashed-fields", || json!({"header": hex_short(&serialize(&h))}));

        let base_hashed = ser::rheader(&h).hashed();
        let base_full = ser::rheader(&h).full();
        for _ in 0..10 {
            let mut h2 = h.clone();
            let Some(label) = edit_header(&mut ctx.rng, &mut h2) else { continue };
            let r2 = ser::rheader(&h2);
            if r2.full() == base_full {
                continue;
            }
            ctx.eval();
            let bh2 = h2.block_hash().to_byte_array();
            ctx.check(bh2 == ref_block_hash(&h2), "block_hash!=reference/edited", || json!({"header": hex_short(&serialize(&h2)), "edit": label}));
            let witness_only = r2.hashed() == base_hashed;
            if witness_only {
                ctx.count(&format!("witness-only-edit/{}", label));
                ctx.check(bh2 == bh, &format!("block_hash-changed-by-witness-only-edit/{}", label), || {
                    json!({"edit": label, "before": hex_short(&base_full), "after": hex_short(&r2.full())})
                });
            } else {
                ctx.count(&format!("non-witness-edit/{}", label));
                ctx.check(bh2 != bh, &format!("block_hash-unchanged-by-non-witness-edit/{}", label), || {
                    json!({"edit": label, "before": hex_short(&base_full), "after": hex_short(&r2.full())})
                });
            }
            ctx.shape(("hedit", label, witness_only));
        }
        ctx.shape(("hdr", h.is_dynafed(), k % 7));
    });

    // repository vectors: every harvested string that decodes as a transaction / block
    let corpus = crate::corpus::harvest();
    ctx.phase("corpus", corpus.len() as u64, |ctx, k| {
        let b = &corpus[k as usize];
        if let Ok(t) = elements::encode::deserialize::<Transaction>(b) {
            check_tx(ctx, &t, "corpus");
            ctx.count("corpus-transactions");
        }
        if let Ok(blk) = elements::encode::deserialize::<elements::Block>(b) {
            ctx.eval();
            let want = ref_block_hash(&blk.header);
            ctx.check(blk.block_hash().to_byte_array() == want, "block_hash!=reference/corpus", || json!({"block": hex_short(b)}));
            for t in &blk.txdata {
                check_tx(ctx, t, "corpus");
            }
            ctx.count("corpus-blocks");
        }
    });
}
