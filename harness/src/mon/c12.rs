//! C12 — size, weight, vsize and discount weight equal the real serialized sizes.
use crate::gen::{self, TxDials};
use crate::refmodel::ser;
use crate::rt::{guard, hex_short, Ctx};
use elements::encode::serialize;
use elements::{Block, Transaction};
use rand::Rng;
use serde_json::json;

fn cs_len(n: usize) -> usize {
    crate::refmodel::merkle::cs(n as u64).len()
}

pub fn check_tx(ctx: &mut Ctx, t: &Transaction, what: &str) {
    ctx.eval();
    let r = ser::rtx(t);
    let full = r.full().len();
    let stripped = r.stripped().len();
    let want_weight = 3 * stripped + full;
    let mut disc = want_weight as i128;
    for o in &r.outs {
        let wit = cs_len(o.witness.surj.len()) + o.witness.surj.len() + cs_len(o.witness.range.len()) + o.witness.range.len();
        disc -= (wit as i128 - 2).max(0);
        if matches!(o.value, ser::RValue::Conf(_)) {
            disc -= 96;
        }
        if matches!(o.nonce, ser::RNonce::Conf(_)) {
            disc -= 128;
        }
    }
    let lane = ctx.lane.clone();
    let res = guard(|| (t.size(), t.weight(), t.vsize(), t.discount_weight(), t.discount_vsize()));
    let (size, weight, vsize, dw, dv) = match res {
        Ok(x) => x,
        Err(p) => {
            ctx.panic_violation(&format!("Transaction::size/weight/discount_weight[{}]", lane), &p, json!({"tx": hex_short(&serialize(t)), "what": what}));
            return;
        }
    };
    let d = || json!({"tx": hex_short(&serialize(t)), "what": what, "shape": gen::tx_shape(t)});
    let wclass = match (t.input.iter().any(|i| !i.witness.is_empty()), t.output.iter().any(|o| !o.witness.is_empty())) {
        (false, false) => "no-witness",
        (true, false) => "input-witness-only",
        (false, true) => "output-witness-only",
        (true, true) => "both-witnesses",
    };
    ctx.count(&format!("witness-class/{}", wclass));
    ctx.check(size == full, &format!("size!=serialized-length/{}", wclass), || json!({"expected": full, "observed": size, "in": d()}));
    ctx.check(size == serialize(t).len(), &format!("size!=library-serialize-length/{}", wclass), || json!({"expected": serialize(t).len(), "observed": size, "in": d()}));
    ctx.check(weight == want_weight, &format!("weight!=3*stripped+full/{}", wclass), || json!({"expected": want_weight, "observed": weight, "stripped": stripped, "full": full, "in": d()}));
    ctx.check(vsize == (want_weight + 3) / 4, "vsize!=ceil(weight/4)", || json!({"expected": (want_weight + 3) / 4, "observed": vsize, "in": d()}));
    if disc >= 0 {
        ctx.check(dw as i128 == disc, &format!("discount_weight!=reference/{}", wclass), || json!({"expected": disc.to_string(), "observed": dw, "weight": want_weight, "in": d()}));
        ctx.check(dv as i128 == (disc + 3) / 4, "discount_vsize!=ceil(discount_weight/4)", || json!({"expected": ((disc + 3) / 4).to_string(), "observed": dv, "in": d()}));
    } else {
        ctx.count("negative-discount-reference-skipped");
    }
    #[allow(deprecated)]
    {
        ctx.check(t.get_size() == size && t.get_weight() == weight, "deprecated-getters-differ", d);
    }
    for o in &t.output {
        let ro = ser::routwit(&o.witness);
        ctx.check(o.witness.rangeproof_len() == ro.range.len(), "rangeproof_len!=serialized", d);
        ctx.check(o.witness.surjectionproof_len() == ro.surj.len(), "surjectionproof_len!=serialized", d);
    }
}

pub fn check_block(ctx: &mut Ctx, b: &Block, what: &str) {
    ctx.eval();
    let rb = ser::rblock(b);
    let hdr = rb.header.full().len() + cs_len(rb.txs.len());
    let want_size = rb.full().len();
    let want_weight = 4 * hdr + rb.txs.iter().map(|t| 3 * t.stripped().len() + t.full().len()).sum::<usize>();
    let lane = ctx.lane.clone();
    let (size, weight) = match guard(|| (b.size(), b.weight())) {
        Ok(x) => x,
        Err(p) => {
            ctx.panic_violation(&format!("Block::size/weight[{}]", lane), &p, json!({"block": hex_short(&serialize(b))}));
            return;
        }
    };
    let d = || json!({"block": hex_short(&serialize(b)), "txs": b.txdata.len(), "what": what});
    ctx.check(size == want_size, "block-size!=serialized-length", || json!({"expected": want_size, "observed": size, "in": d()}));
    ctx.check(size == serialize(b).len(), "block-size!=library-serialize-length", d);
    ctx.check(weight == want_weight, "block-weight!=4*header+tx-weights", || json!({"expected": want_weight, "observed": weight, "in": d()}));
    ctx.count("blocks");
}

pub fn run(ctx: &mut Ctx) {
    let n = ctx.budget(40_000, 1_500_000);
    ctx.phase("transactions", n, |ctx, k| {
        // witness placement dial: none / inputs only / outputs only / all, and all 64 field patterns
        let mask = match k % 8 {
            0 => 0,
            1 => 0x0f,
            2 => 0x30,
            _ => (k / 8 % 64) as u8,
        };
        let d = TxDials { wit_mask: mask, big: k % 50 == 0, max_in: 5, max_out: 5, ..TxDials::default() };
        let mut t = gen::tx(&mut ctx.rng, &d);
        if k % 7 == 0 {
            // proofs with lengths on both sides of the compact-size boundary
            for o in t.output.iter_mut() {
                let l = *gen::pick(&mut ctx.rng, &[65usize, 251, 252, 253, 254, 300, 4174, 5134]);
                if mask & 0x20 != 0 {
                    o.witness.rangeproof = Some(gen::rangeproof_len(&mut ctx.rng, l));
                }
                if mask & 0x10 != 0 {
                    let n = *gen::pick(&mut ctx.rng, &[1usize, 2, 3, 8, 64, 255, 256]);
                    let used = ctx.rng.gen_range(1..=n.min(8));
                    o.witness.surjection_proof = Some(gen::surjectionproof_n(&mut ctx.rng, n, used));
                }
            }
        }
        if k % 97 == 5 {
            // input and output counts on different sides of a compact-size boundary
            let (ni, no) = *gen::pick(&mut ctx.rng, &[(1usize, 253usize), (253, 1), (252, 253), (253, 252), (0, 253), (254, 2)]);
            let proto_in = gen::txin(&mut ctx.rng, &TxDials { wit_mask: 0, ..TxDials::default() }, false);
            let proto_out = gen::txout(&mut ctx.rng, &TxDials { wit_mask: 0, ..TxDials::default() });
            t.input = vec![proto_in; ni];
            t.output = vec![proto_out; no];
            ctx.count("transactions-with-counts-across-the-compact-size-boundary");
        }
        ctx.shape(("tx", gen::tx_shape(&t)));
        if k < 30 {
            ctx.sample("tx", json!({"hex": hex_short(&serialize(&t)), "size": t.size(), "weight": t.weight(), "discount_weight": t.discount_weight()}));
        }
        check_tx(ctx, &t, "generated");
    });
    let n = ctx.budget(1_500, 40_000);
    ctx.phase("blocks", n, |ctx, k| {
        let maxtx = match k % 20 {
            0 => 300,
            1 => 253,
            2 => 252,
            3 => 254,
            // the next compact-size boundary of the transaction count (with minimal transactions)
            4 if k % 100 == 4 => *gen::pick(&mut ctx.rng, &[65_535usize, 65_536, 65_537]),
            _ => 6,
        };
        let mut b = gen::block(&mut ctx.rng, 6);
        if maxtx > 6 {
            let dials = if maxtx > 1000 {
                TxDials { max_in: 0, max_out: 0, wit_mask: 0, ..TxDials::default() }
            } else {
                TxDials { max_in: 1, max_out: 1, ..TxDials::default() }
            };
            let proto = gen::tx(&mut ctx.rng, &dials);
            b.txdata = vec![proto; maxtx];
        }
        ctx.shape(("block", if b.txdata.len() > 254 { 255 + b.txdata.len() / 65_536 } else { b.txdata.len() }, b.header.is_dynafed()));
        check_block(ctx, &b, "generated");
        for t in b.txdata.iter().take(3) {
            check_tx(ctx, t, "in-block");
        }
    });
    let corpus = crate::corpus::harvest();
    ctx.phase("corpus", corpus.len() as u64, |ctx, k| {
        let b = &corpus[k as usize];
        if let Ok(t) = elements::encode::deserialize::<Transaction>(b) {
            check_tx(ctx, &t, "corpus");
            ctx.count("corpus-transactions");
        }
        if let Ok(blk) = elements::encode::deserialize::<Block>(b) {
            check_block(ctx, &blk, "corpus");
            ctx.count("corpus-blocks");
        }
    });
}
