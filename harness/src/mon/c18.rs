//! C18 — fast_merkle_root is the definitional midstate merkle tree for every leaf count.
use crate::gen::{self, Rg};
use crate::refmodel::merkle;
use crate::rt::{guard, hex, Ctx};
use rand::Rng;
use serde_json::json;

fn lib_root(leaves: &[[u8; 32]]) -> [u8; 32] {
    elements::fast_merkle_root(leaves).to_parts().0
}

fn leaves_of(r: &mut Rg, n: usize, style: u64) -> Vec<[u8; 32]> {
    match style % 8 {
        0 => (0..n).map(|_| gen::arr32(r)).collect(),
        6 => vec![[0u8; 32]; n],
        7 => vec![[0xffu8; 32]; n],
        1 => {
            let x = gen::arr32(r);
            vec![x; n]
        }
        2 => (0..n)
            .map(|i| {
                let mut a = [0u8; 32];
                a[..8].copy_from_slice(&(i as u64).to_le_bytes());
                a
            })
            .collect(),
        4 => {
            // sparse: all-zero leaves sprinkled between random ones (zero left/right siblings)
            (0..n).map(|_| if r.gen_range(0..3) == 0 { [0u8; 32] } else { gen::arr32(r) }).collect()
        }
        5 => {
            // values from a two-element alphabet {0, x}: all-zero inner nodes' inputs at many levels
            let x = gen::arr32(r);
            (0..n).map(|_| if r.gen_range(0..2) == 0 { [0u8; 32] } else { x }).collect()
        }
        _ => {
            // two alternating values: adjacent-equal pairs and repeated subtrees
            let a = gen::arr32(r);
            let b = gen::arr32(r);
            (0..n).map(|i| if (i / 2) % 2 == 0 { a } else { b }).collect()
        }
    }
}

fn check_eq(ctx: &mut Ctx, leaves: &[[u8; 32]], style: u64) {
    ctx.eval();
    let n = leaves.len();
    let got = match guard(|| lib_root(leaves)) {
        Ok(g) => g,
        Err(p) => {
            ctx.panic_violation("fast_merkle_root", &p, json!({"count": n, "style": style}));
            return;
        }
    };
    let want = merkle::root(leaves);
    let class = format!("{}", if n == 0 { "empty" } else if n == 1 { "single" } else if n.is_power_of_two() { "pow2" } else if n % 2 == 1 { "odd" } else { "even-nonpow2" });
    ctx.check(got == want, &format!("root-mismatch/{}", class), || {
        json!({"count": n, "style": style, "expected": hex(&want), "observed": hex(&got),
               "first_leaf": leaves.first().map(|l| hex(l))})
    });
    ctx.shape((n, style % 8));
    ctx.count(&format!("counts/{}", class));
}

pub fn run(ctx: &mut Ctx) {
    // phase 1: EVERY leaf count 0..=bound, four leaf styles each (exhaustive in the count)
    let bound = ctx.budget(600, 5000);
    ctx.seen("exhaustive_subspaces", "C18: every leaf count 0..=bound x 8 leaf styles (random, one value repeated, counters, sparse zeros, two-letter alphabets, alternating pairs, all-zero, all-ones); every single-leaf change and adjacent swap for every count up to the sensitivity bound");
    ctx.phase("all-counts", bound + 1, |ctx, n| {
        for style in 0..8u64 {
            let leaves = leaves_of(&mut ctx.rng, n as usize, style);
            check_eq(ctx, &leaves, style);
            if n == 0 {
                ctx.check(lib_root(&leaves) == [0u8; 32], "empty-not-zero", || json!({}));
            }
            if n == 1 {
                ctx.check(lib_root(&leaves) == leaves[0], "single-not-leaf", || json!({"leaf": hex(&leaves[0])}));
            }
        }
        if n < 3 {
            let l = leaves_of(&mut ctx.rng, n as usize, 2);
            ctx.sample(&format!("count-{}", n), json!({"count": n, "root": hex(&lib_root(&l))}));
        }
    });
    ctx.add("exhaustive_counts_upto", 0);
    ctx.max("exhaustive_count_bound", bound);

    // phase 2: sensitivity — for counts <= 64 (quick) / 160 (thorough), changing any one
    // leaf changes the root; swapping two distinct adjacent leaves changes the root
    let sb = ctx.budget(64, 160);
    ctx.phase("sensitivity", sb, |ctx, n0| {
        let n = n0 as usize + 1;
        let leaves = leaves_of(&mut ctx.rng, n, 0);
        let base = lib_root(&leaves);
        for i in 0..n {
            ctx.eval();
            let mut l2 = leaves.clone();
            l2[i][ctx.rng.gen_range(0..32)] ^= 1 << ctx.rng.gen_range(0..8);
            let r2 = lib_root(&l2);
            ctx.check(r2 != base, "leaf-change-ignored", || json!({"count": n, "leaf": i}));
            ctx.check(r2 == merkle::root(&l2), "root-mismatch/after-change", || json!({"count": n, "leaf": i}));
            if i + 1 < n {
                ctx.eval();
                let mut l3 = leaves.clone();
                l3.swap(i, i + 1);
                ctx.check(lib_root(&l3) != base, "swap-ignored", || json!({"count": n, "pos": i}));
                ctx.count("swaps");
            }
            ctx.count("single-leaf-changes");
        }
        ctx.shape(("sens", n));
    });

    // phase 3: sampled large counts around powers of two
    let big = ctx.budget(48, 400);
    ctx.phase("large-counts", big, |ctx, k| {
        let maxpow = if ctx.quick() { 16 } else { 17 };
        // the first cases pin the 2^16 neighbourhood (a level index of 16), the rest are random
        let p = if k < 4 { 1usize << 16 } else { 1usize << ctx.rng.gen_range(9..=maxpow) };
        let n = match k % 4 {
            0 => p - 1,
            1 => p,
            2 => p + 1,
            _ => p + ctx.rng.gen_range(2..p),
        };
        let style = ctx.rng.gen_range(0..8);
        let leaves = leaves_of(&mut ctx.rng, n, style);
        check_eq(ctx, &leaves, style);
        ctx.max("largest_count", n as u64);
    });
}
