//! C13 — a sighash cache answers every query as a fresh one would, in any order.
use super::c03::{self, TapQuery, ECDSA_TYPES, SCHNORR_TYPES};
use crate::gen;
use crate::refmodel::ser::{self, RTxOut};
use crate::refmodel::sighash as rs;
use crate::rt::{guard, hex, hex_short, Ctx};
use elements::encode::serialize;
use elements::hashes::Hash;
use elements::sighash::SighashCache;
use elements::{EcdsaSighashType, Script, Transaction, TxOut};
use rand::Rng;
use serde_json::json;

#[derive(Clone, Debug)]
enum Q {
    Legacy(usize, Vec<u8>, EcdsaSighashType),
    Segwit(usize, Vec<u8>, EcdsaSighashType),
    Tap(TapQuery),
    /// push an item to the script witness of input i through the cache
    WitnessMut(usize, Vec<u8>),
}

fn kind(q: &Q) -> &'static str {
    match q {
        Q::Legacy(..) => "legacy",
        Q::Segwit(..) => "segwitv0",
        Q::Tap(t) => {
            if t.leaf.is_some() {
                "taproot-script"
            } else {
                "taproot-key"
            }
        }
        Q::WitnessMut(..) => "witness_mut",
    }
}

/// Result of a query: digest or an error class (taproot only).
type Res = Result<[u8; 32], String>;

fn err_class(e: &elements::sighash::Error) -> String {
    let s = format!("{:?}", e);
    s.split(|c| c == ' ' || c == '{' || c == '(').next().unwrap_or("?").to_string()
}

fn ask<T: std::ops::Deref<Target = Transaction>>(c: &mut SighashCache<T>, prevs: &[TxOut], q: &Q, genesis: &[u8; 32]) -> Res {
    match q {
        Q::Legacy(i, sc, ty) => Ok(c.legacy_sighash(*i, &Script::from(sc.clone()), *ty).to_byte_array()),
        Q::Segwit(i, sc, ty) => Ok(c.segwitv0_sighash(*i, &Script::from(sc.clone()), prevs[*i].value, *ty).to_byte_array()),
        Q::Tap(t) => c03::lib_tap(c, prevs, t, elements::BlockHash::from_byte_array(*genesis)).map_err(|e| err_class(&e)),
        Q::WitnessMut(..) => unreachable!(),
    }
}

fn reference(t: &Transaction, prevs: &[TxOut], q: &Q, genesis: &[u8; 32]) -> Result<[u8; 32], rs::SigErr> {
    let rtx = ser::rtx(t);
    match q {
        Q::Legacy(i, sc, ty) => Ok(rs::legacy_digest(&rtx, *i, sc, ty.as_u32())),
        Q::Segwit(i, sc, ty) => Ok(rs::segwit_v0_digest(&rtx, *i, sc, &ser::rvalue(&prevs[*i].value), ty.as_u32())),
        Q::Tap(tq) => {
            let rp: Vec<RTxOut> = prevs.iter().map(ser::rtxout).collect();
            c03::ref_tap(&rtx, &rp, tq, genesis)
        }
        Q::WitnessMut(..) => unreachable!(),
    }
}

fn cache_state<T: std::ops::Deref<Target = Transaction> + std::fmt::Debug>(c: &SighashCache<T>) -> Option<u8> {
    // read-only observation of which lazily-built caches are populated (derived Debug)
    let s = format!("{:?}", c);
    let f = |name: &str| -> Option<bool> {
        let i = s.rfind(name)?;
        let rest = &s[i + name.len()..];
        if rest.starts_with("None") {
            Some(false)
        } else if rest.starts_with("Some(") {
            Some(true)
        } else {
            None
        }
    };
    Some((f("common_cache: ")? as u8) | ((f("segwit_cache: ")? as u8) << 1) | ((f("taproot_cache: ")? as u8) << 2))
}

pub fn run(ctx: &mut Ctx) {
    let n = ctx.budget(12_000, 500_000);
    ctx.phase("histories", n, |ctx, k| {
        let (mut tx, prevs) = c03::sig_tx(&mut ctx.rng, k);
        let genesis = gen::arr32(&mut ctx.rng);
        let nin = tx.input.len();
        // build the history first (so that it can be printed), then execute it
        let len = ctx.rng.gen_range(1..=16);
        let mut hist: Vec<Q> = Vec::new();
        for _ in 0..len {
            let i = ctx.rng.gen_range(0..nin);
            let q = match ctx.rng.gen_range(0..10) {
                0 | 1 => Q::Legacy(i, gen::bytes(&mut ctx.rng, 25), *gen::pick(&mut ctx.rng, &ECDSA_TYPES)),
                2 | 3 => Q::Segwit(i, gen::bytes(&mut ctx.rng, 25), *gen::pick(&mut ctx.rng, &ECDSA_TYPES)),
                4..=7 => {
                    let mut t = c03::gen_tap_query(&mut ctx.rng, nin, true);
                    if t.bad_prevouts == 1 && nin < 2 {
                        t.bad_prevouts = 0;
                    }
                    // the placeholder type 0xff now and then: the property does not say what it means,
                    // so only the first clause (a used cache answers as a fresh one) is judged for it
                    if ctx.rng.gen_range(0..12) == 0 {
                        t.ty = elements::SchnorrSighashType::Reserved;
                    }
                    Q::Tap(t)
                }
                8 => {
                    // one item in three looks like an annex (leading 0x50): the digest of a query that
                    // passes no annex must not depend on what the witness stack holds
                    let mut item = gen::bytes(&mut ctx.rng, 8);
                    if ctx.rng.gen_range(0..3) == 0 {
                        item[0] = 0x50;
                    }
                    Q::WitnessMut(i, item)
                }
                _ => {
                    // repeat an earlier query verbatim
                    match hist.iter().filter(|q| !matches!(q, Q::WitnessMut(..))).last() {
                        // ... or almost verbatim: the same taproot query with other annex bytes of the same length
                        Some(Q::Tap(t)) if t.annex.is_some() && ctx.rng.gen_range(0..2) == 0 => {
                            let mut t2 = t.clone();
                            let a = t2.annex.as_mut().unwrap();
                            if a.len() > 1 {
                                let i = ctx.rng.gen_range(1..a.len());
                                a[i] ^= 1 << ctx.rng.gen_range(0..8);
                            } else {
                                a.push(ctx.rng.gen());
                            }
                            t2.wrapper = false;
                            Q::Tap(t2)
                        }
                        Some(q) => q.clone(),
                        None => Q::Legacy(i, vec![], EcdsaSighashType::All),
                    }
                }
            };
            hist.push(q);
        }
        let original = tx.clone();
        let mut shadow = tx.clone();
        let describe = |hist: &[Q], upto: usize| -> Vec<String> { hist[..=upto].iter().map(|q| format!("{:?}", q).chars().take(160).collect()).collect() };
        let mut cache = SighashCache::new(&mut tx);
        for (step, q) in hist.iter().enumerate() {
            if let Q::WitnessMut(i, item) = q {
                match cache.witness_mut(*i) {
                    Some(w) => w.push(item.clone()),
                    None => ctx.violation("witness_mut-none-for-valid-index", json!({"idx": i})),
                }
                shadow.input[*i].witness.script_witness.push(item.clone());
                ctx.count("witness_mut-updates");
                continue;
            }
            ctx.eval();
            let st = cache_state(&cache);
            match st {
                Some(s) => ctx.seen("cache_state_x_query_kind", &format!("common={} segwit={} taproot={} / {}", s & 1, (s >> 1) & 1, (s >> 2) & 1, kind(q))),
                None => ctx.count("cache-state-unobserved"),
            }
            let warm = match guard(|| ask(&mut cache, &prevs, q, &genesis)) {
                Ok(r) => r,
                Err(p) => {
                    ctx.panic_violation(&format!("sighash-query/{}", kind(q)), &p, json!({"history": describe(&hist, step)}));
                    break;
                }
            };
            let fresh_tx = shadow.clone();
            let fresh = ask(&mut SighashCache::new(&fresh_tx), &prevs, q, &genesis);
            let d = || {
                json!({"tx": hex_short(&serialize(&original)), "prevouts": prevs.iter().map(|p| hex_short(&serialize(p))).collect::<Vec<_>>(),
                       "history": describe(&hist, step), "step": step, "cache_state_before": st,
                       "warm": format!("{:?}", warm.as_ref().map(|h| hex(h))), "fresh": format!("{:?}", fresh.as_ref().map(|h| hex(h)))})
            };
            let qcls = match q {
                Q::Tap(t) => c03::tap_query_class(t),
                Q::Legacy(_, _, ty) | Q::Segwit(_, _, ty) => format!("{:?}", ty),
                _ => String::new(),
            };
            ctx.check(warm == fresh, &format!("warm-cache!=fresh-cache/{}/{}/state{}", kind(q), qcls, st.map(|s| s.to_string()).unwrap_or("?".into())), d);
            // "over an unchanged transaction": filling in script witnesses does not change the
            // transaction as far as signature hashes are concerned, so a fresh cache over the
            // transaction as it was before any witness was pushed must give the same answer too
            let fresh0 = ask(&mut SighashCache::new(&original), &prevs, q, &genesis);
            ctx.check(warm == fresh0, &format!("warm-cache!=fresh-cache-on-the-transaction-before-witnesses-were-filled-in/{}/{}", kind(q), qcls), || {
                json!({"fresh_on_original": format!("{:?}", fresh0.as_ref().map(|h| hex(h))), "in": d()})
            });
            // Ok/Err agreement with the independent algorithm on the current transaction (digest
            // equality with the reference is C03's job; here it only tells which queries are defined)
            let reserved = matches!(q, Q::Tap(t) if t.ty == elements::SchnorrSighashType::Reserved);
            if reserved {
                ctx.count("queries/taproot-reserved-type(first clause only)");
                ctx.shape((kind(q), qcls, st, step.min(8)));
                continue;
            }
            let refr = reference(&shadow, &prevs, q, &genesis);
            match (&warm, &refr) {
                (Ok(_), Ok(_)) => {}
                (Err(_), Err(_)) => ctx.count("failing-queries-agree"),
                (Ok(_), Err(_)) => ctx.count("query-answered-where-reference-fails(informational)"),
                (Err(e), Ok(_)) => ctx.violation(&format!("err-where-defined/{}/{}/{}", kind(q), qcls, e), d()),
            }
            // ANYONECANPAY: One is as good as All; non-ANYONECANPAY: One is an error
            if let Q::Tap(t) = q {
                if t.bad_prevouts == 0 && t.idx < nin {
                    let acp = (t.ty as u8) & 0x80 != 0;
                    let other = Q::Tap(TapQuery { one: !t.one, ..t.clone() });
                    let r2 = ask(&mut cache, &prevs, &other, &genesis);
                    ctx.eval();
                    if acp {
                        ctx.check(r2 == warm && (warm.is_ok() || refr.is_err()), &format!("anyonecanpay-One!=All/{:#04x}", t.ty as u8), || {
                            json!({"with_this_form": format!("{:?}", warm.as_ref().map(|h| hex(h))), "with_other_form": format!("{:?}", r2.as_ref().map(|h| hex(h))),
                                   "queried_with_one_first": t.one, "in": d()})
                        });
                        ctx.count("acp-one-vs-all-compared");
                    } else {
                        let (one_res, all_res) = if t.one { (&warm, &r2) } else { (&r2, &warm) };
                        ctx.check(matches!(one_res, Err(e) if e == "PrevoutKind"), &format!("single-prevout-accepted-for-type-needing-all/{:#04x}", t.ty as u8), d);
                        ctx.check(all_res.is_ok() || (t.ty as u8 & 3) == 3, &format!("all-prevouts-rejected/{:#04x}", t.ty as u8), d);
                        ctx.count("non-acp-one-rejected");
                    }
                }
            }
            ctx.count(&format!("queries/{}", kind(q)));
            ctx.shape((kind(q), qcls, st, step.min(8)));
        }
        drop(cache);
        // the transaction itself must only have gained the pushed witness items
        ctx.check(tx == shadow, "transaction-changed-beyond-witness_mut", || json!({"before": hex_short(&serialize(&original)), "after": hex_short(&serialize(&tx))}));
        if k < 12 {
            ctx.sample("history", json!({"inputs": nin, "outputs": tx.output.len(), "queries": hist.iter().map(|q| format!("{:?}", q).chars().take(100).collect::<String>()).collect::<Vec<_>>()}));
        }
    });
}
