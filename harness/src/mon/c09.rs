//! C09 — multi-party PSET blinding balances for every split and order of blinders.
use super::c04::{describe, gen_scenario};
use crate::gen::blind::{Dials, Scenario};
use crate::gen::{self, with_secp};
use crate::rt::{guard, hex_short, Ctx};
use elements::encode::{deserialize, serialize};
use elements::pset::{Input, Output, PartiallySignedTransaction as Pset};
use elements::secp256k1_zkp as zkp;
use elements::{BlindAssetProofs, BlindValueProofs, TxOutSecrets};
use rand::{Rng, SeedableRng};
use serde_json::json;
use std::collections::HashMap;

pub struct Party {
    pub inputs: Vec<usize>,
    pub outputs: Vec<usize>,
}

/// Build the PSET of a scenario and a party assignment honouring the protocol's premises.
pub fn build(r: &mut gen::Rg, sc: &Scenario, max_parties: usize) -> (Pset, Vec<Party>) {
    let n_in = sc.tx.input.len();
    let k = if max_parties >= 2 && n_in >= 2 && r.gen_range(0..4) != 0 { r.gen_range(2..=max_parties.min(n_in)) } else { r.gen_range(1..=max_parties.min(n_in)) };
    // partition inputs into k non-empty groups
    let mut owner = vec![0usize; n_in];
    let mut order: Vec<usize> = (0..n_in).collect();
    for i in (1..n_in).rev() {
        let j = r.gen_range(0..=i);
        order.swap(i, j);
    }
    for (pos, i) in order.iter().enumerate() {
        owner[*i] = if pos < k { pos } else { r.gen_range(0..k) };
    }
    // marked outputs go to a party holding an input of the same asset (issuing input for issued assets)
    let marked: Vec<usize> = (0..sc.tx.output.len()).filter(|i| sc.receivers[*i].is_some()).collect();
    let mut out_owner: HashMap<usize, usize> = HashMap::new();
    let mut blinder_index: HashMap<usize, u32> = HashMap::new();
    for o in &marked {
        let asset = sc.orig[*o].0;
        let mut candidates: Vec<usize> = (0..n_in).filter(|i| sc.spent_secrets[*i].asset == asset).collect();
        if candidates.is_empty() {
            // an issued asset: find the issuing input through the blinder's secret list order
            let mut idx = 0;
            for (i, inp) in sc.tx.input.iter().enumerate() {
                idx += 1;
                let n_pseudo = (!inp.asset_issuance.amount.is_null()) as usize + (!inp.asset_issuance.inflation_keys.is_null()) as usize;
                for p in 0..n_pseudo {
                    if sc.blind_secrets[idx + p].asset == asset {
                        candidates.push(i);
                    }
                }
                idx += n_pseudo;
            }
        }
        let inp = *gen::pick(r, &candidates);
        out_owner.insert(*o, owner[inp]);
        // blinder index: any input of that party
        let own: Vec<usize> = (0..n_in).filter(|i| owner[*i] == owner[inp]).collect();
        blinder_index.insert(*o, *gen::pick(r, &own) as u32);
    }
    // premise: a party owning a (fully or partially) confidential input owns at least one marked output; otherwise
    // hand its inputs over to a party that does
    let has_out = |p: usize, out_owner: &HashMap<usize, usize>| out_owner.values().any(|x| *x == p);
    let with_out: Vec<usize> = (0..k).filter(|p| has_out(*p, &out_owner)).collect();
    for p in 0..k {
        let conf = (0..n_in).any(|i| owner[i] == p && (sc.spent[i].asset.is_confidential() || sc.spent[i].value.is_confidential()));
        if conf && !has_out(p, &out_owner) {
            let to = *gen::pick(r, &with_out);
            for i in 0..n_in {
                if owner[i] == p {
                    owner[i] = to;
                }
            }
        }
    }
    let mut parties: Vec<Party> = (0..k).map(|p| Party { inputs: (0..n_in).filter(|i| owner[*i] == p).collect(), outputs: marked.iter().cloned().filter(|o| out_owner[o] == p).collect() }).collect();
    parties.retain(|p| !p.inputs.is_empty());

    let mut pset = Pset::new_v2();
    for (i, txin) in sc.tx.input.iter().enumerate() {
        let mut inp = if txin.has_issuance() { Input::from_txin(txin.clone()) } else { Input::from_prevout(txin.previous_output) };
        inp.witness_utxo = Some(sc.spent[i].clone());
        if txin.has_issuance() {
            inp.blinded_issuance = Some(0);
        }
        pset.add_input(inp);
    }
    for (o, txout) in sc.tx.output.iter().enumerate() {
        let key = txout.nonce.commitment().map(|pk| elements::bitcoin::PublicKey { inner: pk, compressed: true });
        let mut out = Output::new_explicit(txout.script_pubkey.clone(), sc.orig[o].1, sc.orig[o].0, key);
        if let Some(bi) = blinder_index.get(&o) {
            out.blinder_index = Some(*bi);
        }
        pset.add_output(out);
    }
    (pset, parties)
}

fn permutations(n: usize) -> Vec<Vec<usize>> {
    if n == 0 {
        return vec![vec![]];
    }
    let mut out = Vec::new();
    for p in permutations(n - 1) {
        for pos in 0..=p.len() {
            let mut q = p.clone();
            q.insert(pos, n - 1);
            out.push(q);
        }
    }
    out
}

/// Run one order of blinders; every hop goes through serialize -> deserialize.
pub fn run_order(ctx: &mut Ctx, sc: &Scenario, pset0: &Pset, parties: &[Party], order: &[usize], seed: u64) {
    ctx.eval();
    let mut rng = rand_chacha::ChaCha20Rng::seed_from_u64(seed);
    let mut pset = pset0.clone();
    let mut history: Vec<String> = Vec::new();
    let d = |history: &Vec<String>, pset: &Pset| {
        let mut v = describe(sc);
        v["parties"] = json!(parties.iter().map(|p| json!({"inputs": p.inputs, "outputs": p.outputs})).collect::<Vec<_>>());
        v["order"] = json!(order);
        v["history"] = json!(history);
        v["pset"] = json!(hex_short(&serialize(pset)));
        v
    };
    for (step, pi) in order.iter().enumerate() {
        let last = step + 1 == order.len();
        // hop
        let bytes = serialize(&pset);
        pset = match guard(|| deserialize::<Pset>(&bytes)) {
            Ok(Ok(p)) => p,
            Ok(Err(e)) => {
                ctx.violation("pset-hop-does-not-decode", json!({"err": format!("{:?}", e), "in": d(&history, &pset)}));
                return;
            }
            Err(p) => {
                ctx.panic_violation("deserialize::<Pset>", &p, d(&history, &pset));
                return;
            }
        };
        let secrets: HashMap<usize, TxOutSecrets> = parties[*pi].inputs.iter().map(|i| (*i, sc.spent_secrets[*i])).collect();
        let scalars_before = pset.global.scalars.len();
        let res = guard(|| with_secp(|s| if last { pset.blind_last(&mut rng, s, &secrets) } else { pset.blind_non_last(&mut rng, s, &secrets) }));
        history.push(format!("party {} {} (inputs {:?}, outputs {:?}): scalars {} -> {}", pi, if last { "blind_last" } else { "blind_non_last" }, parties[*pi].inputs, parties[*pi].outputs, scalars_before, pset.global.scalars.len()));
        match res {
            Ok(Ok(_)) => {}
            Ok(Err(e)) => {
                let cls = format!("{:?}", e);
                let cls = cls.split('(').next().unwrap_or("?").to_string();
                ctx.violation(&format!("blinding-step-failed/{}/{}", if last { "last" } else { "non-last" }, cls), json!({"err": format!("{:?}", e), "in": d(&history, &pset)}));
                return;
            }
            Err(p) => {
                ctx.panic_violation(if last { "Pset::blind_last" } else { "Pset::blind_non_last" }, &p, d(&history, &pset));
                return;
            }
        }
        if !last && !parties[*pi].outputs.is_empty() {
            ctx.check(pset.global.scalars.len() == scalars_before + 1, "non-last-blinder-did-not-publish-one-scalar", || d(&history, &pset));
        }
    }
    // final hop
    let bytes = serialize(&pset);
    let pset = match deserialize::<Pset>(&bytes) {
        Ok(p) => p,
        Err(e) => {
            ctx.violation("final-pset-does-not-decode", json!({"err": format!("{:?}", e)}));
            return;
        }
    };
    let nparties = parties.len();
    let last_outs = parties[*order.last().unwrap()].outputs.len().min(3);
    let cls = format!("parties{}/last-party-outputs{}", nparties, last_outs);
    ctx.check(pset.global.scalars.is_empty(), &format!("scalars-not-empty-after-last-blinder/{}", cls), || d(&history, &pset));
    for (o, out) in pset.outputs().iter().enumerate() {
        if sc.receivers[o].is_some() {
            ctx.check(out.is_fully_blinded(), &format!("marked-output-not-fully-blinded/{}", cls), || json!({"output": o, "in": d(&history, &pset)}));
            // stored explicit proofs
            if let (Some(vp), Some(ap), Some(ac), Some(vc), Some(amount), Some(asset)) = (&out.blind_value_proof, &out.blind_asset_proof, out.asset_comm, out.amount_comm, out.amount, out.asset) {
                ctx.check(with_secp(|s| vp.blind_value_proof_verify(s, amount, ac, vc)), "stored-blind_value_proof-does-not-verify", || json!({"output": o, "in": d(&history, &pset)}));
                ctx.check(with_secp(|s| ap.blind_asset_proof_verify(s, asset, ac)), "stored-blind_asset_proof-does-not-verify", || json!({"output": o, "in": d(&history, &pset)}));
            } else {
                ctx.violation("explicit-proofs-or-explicit-fields-missing-after-blinding", json!({"output": o, "in": d(&history, &pset)}));
            }
        }
    }
    let tx = match guard(|| pset.extract_tx()) {
        Ok(Ok(t)) => t,
        Ok(Err(e)) => {
            ctx.violation("extract_tx-failed-after-blinding", json!({"err": format!("{:?}", e), "in": d(&history, &pset)}));
            return;
        }
        Err(p) => {
            ctx.panic_violation("Pset::extract_tx", &p, d(&history, &pset));
            return;
        }
    };
    match guard(|| with_secp(|s| tx.verify_tx_amt_proofs(s, &sc.spent))) {
        Ok(Ok(())) => ctx.count("orders-verified"),
        Ok(Err(e)) => {
            let c = format!("{:?}", e);
            let c = c.split('(').next().unwrap_or("?").to_string();
            ctx.violation(&format!("extracted-tx-fails-verification/{}/{}", c, cls), json!({"err": format!("{:?}", e), "tx": hex_short(&serialize(&tx)), "in": d(&history, &pset)}));
        }
        Err(p) => ctx.panic_violation("verify_tx_amt_proofs", &p, d(&history, &pset)),
    }
    for (o, out) in tx.output.iter().enumerate() {
        let Some(sk) = sc.receivers[o] else { continue };
        match with_secp(|s| out.unblind(s, sk)) {
            Ok(sec) => {
                ctx.check(sec.asset == sc.orig[o].0 && sec.value == sc.orig[o].1, "unblinded-asset-or-value-differs", || json!({"output": o, "in": d(&history, &pset)}));
            }
            Err(e) => {
                let c = format!("{:?}", e);
                let c = c.split('(').next().unwrap_or("?").to_string();
                ctx.violation(&format!("receiver-cannot-unblind/{}", c), json!({"output": o, "err": format!("{:?}", e), "in": d(&history, &pset)}));
            }
        }
    }
    ctx.shape((sc.shape.clone(), nparties, order.to_vec()));
}

pub fn run(ctx: &mut Ctx) {
    ctx.seen("exhaustive_subspaces", "C09: every choice of last party with outputs x every permutation of the other parties, per scenario");
    let n = ctx.budget(2_400, 60_000);
    ctx.phase("scenarios", n, |ctx, k| {
        // prefer scenarios with several inputs so that several parties exist
        let mut sc = gen_scenario(&mut ctx.rng, &Dials { issuances: k % 3 == 0, max_inputs: 5, ..Dials::default() });
        for _ in 0..3 {
            if sc.tx.input.len() >= 2 || k % 5 == 0 {
                break;
            }
            sc = gen_scenario(&mut ctx.rng, &Dials { issuances: k % 3 == 0, max_inputs: 5, ..Dials::default() });
        }
        let (pset, parties) = build(&mut ctx.rng, &sc, 4);
        let np = parties.len();
        if k < 6 {
            ctx.sample(&format!("scenario-{}", k), json!({"shape": sc.shape, "parties": parties.iter().map(|p| json!({"inputs": p.inputs, "outputs": p.outputs})).collect::<Vec<_>>(), "pset": hex_short(&serialize(&pset))}));
        }
        ctx.count(&format!("parties/{}", np));
        // every choice of last party (it must have something to blind) and every permutation of the others
        let base_seed: u64 = ctx.rng.gen();
        let mut orders = 0;
        for last in 0..np {
            if parties[last].outputs.is_empty() {
                continue;
            }
            let others: Vec<usize> = (0..np).filter(|p| *p != last).collect();
            for perm in permutations(others.len()) {
                let mut order: Vec<usize> = perm.iter().map(|i| others[*i]).collect();
                order.push(last);
                run_order(ctx, &sc, &pset, &parties, &order, base_seed ^ (orders as u64) << 8);
                orders += 1;
            }
        }
        ctx.add("orders-run", orders);
        ctx.max("orders-per-scenario", orders);
    });
}
