//! Runtime shared by all monitors: per-case deterministic RNG, boundary journal,
//! panic capture, coverage counters, shape signatures, violation records.

use rand::SeedableRng;
use rand_chacha::ChaCha20Rng;
use serde_json::{json, Value};
use std::cell::RefCell;
use std::collections::{BTreeMap, BTreeSet, HashSet};
use std::hash::{Hash, Hasher};
use std::io::Write;
use std::panic::{self, AssertUnwindSafe};

use crate::refmodel::sha;

#[derive(Clone, Copy, PartialEq, Eq, Debug)]
pub enum Tier {
    Quick,
    Thorough,
}

#[derive(Clone, Debug)]
pub struct PanicInfo {
    pub file: String,
    pub line: u32,
    pub msg: String,
}

impl PanicInfo {
    /// true when the panic originated in the harness' own sources (a harness bug,
    /// never a verdict about the library)
    pub fn in_harness(&self) -> bool {
        self.file.starts_with("src/") || self.file.contains("/verif/harness/")
    }
    pub fn site(&self) -> String {
        // stable across machines: strip registry prefix
        let f = match self.file.find("/registry/src/") {
            Some(i) => {
                let rest = &self.file[i + 14..];
                match rest.find('/') {
                    Some(j) => rest[j + 1..].to_string(),
                    None => rest.to_string(),
                }
            }
            None => self.file.trim_start_matches("/repo/").to_string(),
        };
        format!("{}:{}", f, self.line)
    }
    pub fn msg_class(&self) -> String {
        // message with digits collapsed so that signatures do not carry random data
        let mut out = String::new();
        let mut last_digit = false;
        for c in self.msg.chars().take(80) {
            if c.is_ascii_digit() {
                if !last_digit {
                    out.push('N');
                }
                last_digit = true;
            } else {
                out.push(c);
                last_digit = false;
            }
        }
        out
    }
}

thread_local! {
    static LAST_PANIC: RefCell<Option<PanicInfo>> = const { RefCell::new(None) };
}

pub fn install_panic_hook() {
    panic::set_hook(Box::new(|info| {
        let (file, line) = info
            .location()
            .map(|l| (l.file().to_string(), l.line()))
            .unwrap_or_else(|| ("?".into(), 0));
        let msg = if let Some(s) = info.payload().downcast_ref::<&str>() {
            s.to_string()
        } else if let Some(s) = info.payload().downcast_ref::<String>() {
            s.clone()
        } else {
            "<non-string panic payload>".to_string()
        };
        LAST_PANIC.with(|p| *p.borrow_mut() = Some(PanicInfo { file, line, msg }));
    }));
}

/// Run a closure that calls into the library; a panic is turned into `Err(PanicInfo)`.
pub fn guard<T>(f: impl FnOnce() -> T) -> Result<T, PanicInfo> {
    LAST_PANIC.with(|p| *p.borrow_mut() = None);
    match panic::catch_unwind(AssertUnwindSafe(f)) {
        Ok(v) => Ok(v),
        Err(_) => Err(LAST_PANIC.with(|p| p.borrow_mut().take()).unwrap_or(PanicInfo {
            file: "?".into(),
            line: 0,
            msg: "panic without hook info".into(),
        })),
    }
}

pub fn hex(b: &[u8]) -> String {
    let mut s = String::with_capacity(b.len() * 2);
    for x in b {
        s.push_str(&format!("{:02x}", x));
    }
    s
}

pub fn unhex(s: &str) -> Option<Vec<u8>> {
    if s.len() % 2 != 0 {
        return None;
    }
    let b = s.as_bytes();
    let mut out = Vec::with_capacity(s.len() / 2);
    for i in (0..b.len()).step_by(2) {
        let h = (b[i] as char).to_digit(16)?;
        let l = (b[i + 1] as char).to_digit(16)?;
        out.push((h * 16 + l) as u8);
    }
    Some(out)
}

/// Shorten long hex for samples / details.
pub fn hex_short(b: &[u8]) -> String {
    if b.len() <= 600 {
        hex(b)
    } else {
        format!("{}…({} bytes)…{}", hex(&b[..200]), b.len(), hex(&b[b.len() - 100..]))
    }
}

pub struct Violation {
    pub sig: String,
    pub phase: String,
    pub idx: u64,
    pub detail: Value,
    pub count: u64,
}

pub struct Ctx {
    pub prop: String,
    pub tier: Tier,
    pub seed: u64,
    pub shard: u64,
    pub nshards: u64,
    pub phase: String,
    pub idx: u64,
    pub rng: ChaCha20Rng,
    pub replaying: bool,
    pub lane: String,
    evaluations: u64,
    counters: BTreeMap<String, u64>,
    sets: BTreeMap<String, BTreeSet<String>>,
    shapes: HashSet<u64>,
    samples: Vec<Value>,
    sample_keys: BTreeSet<String>,
    violations: BTreeMap<String, Violation>,
    harness_errors: Vec<String>,
    journal: Option<std::fs::File>,
    only: Option<(String, u64)>,
    cases_run: u64,
}

pub const MAX_SIGS: usize = 50;

impl Ctx {
    pub fn new(prop: &str, tier: Tier, seed: u64, shard: u64, nshards: u64) -> Ctx {
        Ctx {
            prop: prop.to_string(),
            tier,
            seed,
            shard,
            nshards,
            phase: String::new(),
            idx: 0,
            rng: ChaCha20Rng::seed_from_u64(0),
            replaying: false,
            lane: "native".into(),
            evaluations: 0,
            counters: BTreeMap::new(),
            sets: BTreeMap::new(),
            shapes: HashSet::new(),
            samples: Vec::new(),
            sample_keys: BTreeSet::new(),
            violations: BTreeMap::new(),
            harness_errors: Vec::new(),
            journal: None,
            only: None,
            cases_run: 0,
        }
    }

    pub fn set_journal(&mut self, path: &str) {
        self.journal = std::fs::File::create(path).ok();
    }

    pub fn set_only(&mut self, phase: &str, idx: u64) {
        self.only = Some((phase.to_string(), idx));
        self.replaying = true;
    }

    pub fn quick(&self) -> bool {
        self.tier == Tier::Quick
    }

    /// pick a budget by tier
    pub fn budget(&self, quick: u64, thorough: u64) -> u64 {
        match self.tier {
            Tier::Quick => quick,
            Tier::Thorough => thorough,
        }
    }

    fn case_rng(&self, phase: &str, idx: u64) -> ChaCha20Rng {
        let mut pre = Vec::new();
        pre.extend_from_slice(b"vmon-case-v1");
        pre.extend_from_slice(&self.seed.to_le_bytes());
        pre.extend_from_slice(self.prop.as_bytes());
        pre.push(0);
        pre.extend_from_slice(phase.as_bytes());
        pre.push(0);
        pre.extend_from_slice(&idx.to_le_bytes());
        ChaCha20Rng::from_seed(sha::sha256(&pre))
    }

    /// Run `n` cases of a phase; this shard executes the indices congruent to its
    /// number. Each case gets its own RNG stream derived from (seed, property, phase,
    /// index) so a case can be replayed alone. Panics escaping the closure are
    /// classified: library location -> violation, harness location -> harness error.
    pub fn phase(&mut self, name: &str, n: u64, mut f: impl FnMut(&mut Ctx, u64)) {
        let (lo, step, hi) = match &self.only {
            Some((p, i)) => {
                if p != name {
                    return;
                }
                (*i, 1u64, (*i + 1).min(n.max(*i + 1)))
            }
            None => (self.shard, self.nshards, n),
        };
        self.phase = name.to_string();
        let mut i = lo;
        while i < hi {
            self.idx = i;
            self.rng = self.case_rng(name, i);
            if let Some(j) = self.journal.as_mut() {
                let _ = writeln!(j, "{} {}", name, i);
                let _ = j.flush();
            }
            self.cases_run += 1;
            let r = guard(|| f(self, i));
            if let Err(p) = r {
                if p.in_harness() {
                    self.harness_error(format!(
                        "harness panic in {}#{}: {} at {}:{}",
                        name, i, p.msg, p.file, p.line
                    ));
                } else {
                    let sig = format!("uncaught-panic/{}/{}", p.site(), p.msg_class());
                    self.violation(&sig, json!({"panic": p.msg, "at": format!("{}:{}", p.file, p.line)}));
                }
            }
            if self.violations.len() >= MAX_SIGS {
                self.count("stopped_at_max_signatures");
                break;
            }
            i += step;
        }
    }

    pub fn n_evals(&self) -> u64 {
        self.evaluations
    }
    pub fn eval(&mut self) {
        self.evaluations += 1;
    }
    pub fn evals(&mut self, n: u64) {
        self.evaluations += n;
    }
    pub fn count(&mut self, key: &str) {
        *self.counters.entry(key.to_string()).or_insert(0) += 1;
    }
    pub fn add(&mut self, key: &str, n: u64) {
        *self.counters.entry(key.to_string()).or_insert(0) += n;
    }
    pub fn max(&mut self, key: &str, n: u64) {
        let e = self.counters.entry(format!("max:{}", key)).or_insert(0);
        if n > *e {
            *e = n;
        }
    }
    /// record a member of a (small) named set of things observed, e.g. error classes
    pub fn seen(&mut self, set: &str, member: &str) {
        let s = self.sets.entry(set.to_string()).or_default();
        if s.len() < 400 {
            s.insert(member.to_string());
        }
    }
    /// register the shape signature of a non-trivial case
    pub fn shape<H: Hash>(&mut self, h: H) {
        let mut s = std::collections::hash_map::DefaultHasher::new();
        h.hash(&mut s);
        self.shapes.insert(s.finish());
    }
    /// keep at most one sample per key, at most 12 keys
    pub fn sample(&mut self, key: &str, v: Value) {
        if self.sample_keys.len() < 12 && !self.sample_keys.contains(key) {
            self.sample_keys.insert(key.to_string());
            self.samples.push(json!({"kind": key, "phase": self.phase, "idx": self.idx, "case": v}));
        }
    }
    pub fn violation(&mut self, sig: &str, detail: Value) {
        let phase = self.phase.clone();
        let idx = self.idx;
        if let Some(v) = self.violations.get_mut(sig) {
            v.count += 1;
            return;
        }
        self.violations.insert(
            sig.to_string(),
            Violation { sig: sig.to_string(), phase, idx, detail, count: 1 },
        );
    }
    /// convenience: check a condition, record a violation if it fails
    pub fn check(&mut self, ok: bool, sig: &str, detail: impl FnOnce() -> Value) -> bool {
        if !ok {
            let d = detail();
            self.violation(sig, d);
        }
        ok
    }
    /// A library panic inside an operation that the property requires to succeed / be total.
    pub fn panic_violation(&mut self, api: &str, p: &PanicInfo, detail: Value) {
        if p.in_harness() {
            self.harness_error(format!("harness panic under {}: {} at {}:{}", api, p.msg, p.file, p.line));
            return;
        }
        let sig = format!("panic/{}/{}/{}", api, p.site(), p.msg_class());
        self.violation(&sig, json!({"api": api, "panic": p.msg, "at": format!("{}:{}", p.file, p.line), "input": detail}));
    }
    pub fn harness_error(&mut self, msg: String) {
        if self.harness_errors.len() < 20 {
            self.harness_errors.push(msg);
        }
    }
    pub fn n_violations(&self) -> usize {
        self.violations.len()
    }

    pub fn report(&self) -> Value {
        let mut shapes: Vec<u64> = self.shapes.iter().cloned().collect();
        shapes.sort_unstable();
        // cap the list handed to the supervisor; count stays exact
        let shapes_json: Vec<String> = shapes.iter().take(200_000).map(|h| format!("{:016x}", h)).collect();
        json!({
            "property": self.prop,
            "shard": self.shard,
            "nshards": self.nshards,
            "seed": self.seed,
            "lane": self.lane,
            "tier": if self.tier == Tier::Quick {"quick"} else {"thorough"},
            "cases_run": self.cases_run,
            "evaluations": self.evaluations,
            "counters": self.counters,
            "sets": self.sets,
            "shapes": shapes_json,
            "shapes_total": shapes.len(),
            "samples": self.samples,
            "harness_errors": self.harness_errors,
            "violations": self.violations.values().map(|v| json!({
                "sig": v.sig, "phase": v.phase, "idx": v.idx, "detail": v.detail, "count": v.count
            })).collect::<Vec<_>>(),
        })
    }
}
