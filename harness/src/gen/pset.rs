//! Generator of well-formed PSETs (those meeting the format's own acceptance rules)
//! over every subset of optional global / input / output fields.

use super::{arr20, arr32, bytes, chance, pick, public_key, rangeproof, secret_key, surjectionproof, tweak, with_secp, Rg, TxDials};
use elements::bitcoin::bip32::{ChainCode, ChildNumber, DerivationPath, Fingerprint, Xpub};
use elements::bitcoin::{self, NetworkKind};
use elements::hashes::{hash160, ripemd160, sha256, sha256d, Hash};
use elements::pset::raw;
use elements::pset::{Input, Output, PartiallySignedTransaction as Pset, PsbtSighashType, TapTree};
use elements::schnorr::SchnorrSig;
use elements::secp256k1_zkp as zkp;
use elements::taproot::{ControlBlock, LeafVersion, TapLeafHash, TapNodeHash, TaprootBuilder};
use elements::{AssetId, LockTime, OutPoint, Script, SchnorrSighashType, Sequence, Txid};
use rand::Rng;

pub fn btc_pubkey(r: &mut Rg) -> bitcoin::PublicKey {
    let pk = public_key(r);
    if chance(r, 1, 4) {
        bitcoin::PublicKey::new_uncompressed(pk)
    } else {
        bitcoin::PublicKey::new(pk)
    }
}

pub fn xonly(r: &mut Rg) -> zkp::XOnlyPublicKey {
    public_key(r).x_only_public_key().0
}

pub fn derivation_path(r: &mut Rg, len: usize) -> DerivationPath {
    let v: Vec<ChildNumber> = (0..len)
        .map(|_| {
            let i = match r.gen_range(0..4) {
                0 => 0,
                1 => (1 << 31) - 1,
                _ => r.gen_range(0..(1u32 << 31)),
            };
            if chance(r, 1, 2) {
                ChildNumber::from_hardened_idx(i).unwrap()
            } else {
                ChildNumber::from_normal_idx(i).unwrap()
            }
        })
        .collect();
    DerivationPath::from(v)
}

pub fn key_source(r: &mut Rg) -> (Fingerprint, DerivationPath) {
    let l = r.gen_range(0..=6);
    let mut f = [0u8; 4];
    r.fill(&mut f);
    (Fingerprint::from(f), derivation_path(r, l))
}

pub fn xpub(r: &mut Rg) -> Xpub {
    let mut f = [0u8; 4];
    r.fill(&mut f);
    Xpub {
        network: if chance(r, 1, 2) { NetworkKind::Main } else { NetworkKind::Test },
        depth: r.gen_range(0..8),
        parent_fingerprint: Fingerprint::from(f),
        child_number: ChildNumber::from(r.gen::<u32>()),
        public_key: public_key(r),
        chain_code: ChainCode::from(arr32(r)),
    }
}

pub fn schnorr_sig(r: &mut Rg) -> SchnorrSig {
    let mut b = [0u8; 64];
    r.fill(&mut b[..]);
    let sig = zkp::schnorr::Signature::from_slice(&b).expect("any 64 bytes");
    let ty = *pick(
        r,
        &[
            SchnorrSighashType::Default,
            SchnorrSighashType::All,
            SchnorrSighashType::None,
            SchnorrSighashType::Single,
            SchnorrSighashType::AllPlusAnyoneCanPay,
            SchnorrSighashType::NonePlusAnyoneCanPay,
            SchnorrSighashType::SinglePlusAnyoneCanPay,
        ],
    );
    SchnorrSig { sig, hash_ty: ty }
}

pub fn leaf_version(r: &mut Rg) -> LeafVersion {
    LeafVersion::from_u8(*pick(r, &[0xc4u8, 0xc4, 0xc0, 0xc2, 0xfe, 0x66, 0x00])).unwrap()
}

pub fn control_block(r: &mut Rg) -> ControlBlock {
    let depth = match r.gen_range(0..6) {
        0 => 0,
        1 => 1,
        2 => 128,
        _ => r.gen_range(0..8),
    };
    // assembled from its public parts (not through the slice parser, which is one of the things
    // the PSET decoder is checked against)
    let path: Vec<elements::taproot::TapNodeHash> = (0..depth).map(|_| elements::taproot::TapNodeHash::from_byte_array(arr32(r))).collect();
    ControlBlock {
        leaf_version: leaf_version(r),
        output_key_parity: if r.gen_range(0..2u8) == 0 { zkp::Parity::Even } else { zkp::Parity::Odd },
        internal_key: xonly(r),
        merkle_branch: elements::taproot::TaprootMerkleBranch::from_inner(path).expect("at most 128 nodes"),
    }
}

pub fn small_script(r: &mut Rg) -> Script {
    let n = *pick(r, &[0usize, 1, 5, 22, 34, 80, 253]);
    Script::from(bytes(r, n))
}

/// A valid DFS depth sequence of a full binary tree with `n` leaves (random shape).
pub fn tree_depths(r: &mut Rg, n: usize) -> Vec<usize> {
    fn rec(r: &mut Rg, n: usize, d: usize, out: &mut Vec<usize>) {
        if n == 1 {
            out.push(d);
        } else {
            let l = r.gen_range(1..n);
            rec(r, l, d + 1, out);
            rec(r, n - l, d + 1, out);
        }
    }
    let mut out = Vec::new();
    rec(r, n, 0, &mut out);
    out
}

pub fn tap_tree_from_depths(r: &mut Rg, depths: &[usize]) -> TapTree {
    let mut b = TaprootBuilder::new();
    for d in depths {
        let s = if chance(r, 1, 6) { Script::from(vec![0x51]) } else { small_script(r) };
        b = b.add_leaf_with_ver(*d, s, leaf_version(r)).expect("valid depth sequence");
    }
    TapTree::from_inner(b).ok().expect("complete tree")
}

pub fn tap_tree(r: &mut Rg) -> TapTree {
    let n = r.gen_range(1..=6);
    let d = tree_depths(r, n);
    tap_tree_from_depths(r, &d)
}

pub fn prop_key(r: &mut Rg) -> raw::ProprietaryKey {
    let prefix = match r.gen_range(0..4) {
        0 => b"pset".to_vec(),
        1 => vec![],
        2 => b"vmon".to_vec(),
        _ => {
            let n = r.gen_range(1..10);
            bytes(r, n)
        }
    };
    let is_pset = prefix == b"pset";
    raw::ProprietaryKey {
        prefix,
        // for the "pset" prefix stay clear of the subtypes the library interprets
        subtype: if is_pset { r.gen_range(0x40..=0xffu8) } else { r.gen() },
        key: {
            let n = r.gen_range(0..6);
            bytes(r, n)
        },
    }
}

pub fn unknown_key(r: &mut Rg) -> raw::Key {
    raw::Key {
        // type values no map interprets
        type_value: r.gen_range(0x40..=0xf0u8),
        key: {
            let n = r.gen_range(0..6);
            bytes(r, n)
        },
    }
}

fn btc_tx(r: &mut Rg) -> bitcoin::Transaction {
    use bitcoin::{absolute, transaction, Amount, ScriptBuf, TxIn, TxOut, Witness};
    bitcoin::Transaction {
        version: transaction::Version(2),
        lock_time: absolute::LockTime::from_consensus(r.gen()),
        input: (0..r.gen_range(1..3))
            .map(|_| TxIn {
                previous_output: bitcoin::OutPoint { txid: <bitcoin::Txid as bitcoin::hashes::Hash>::from_byte_array(arr32(r)), vout: r.gen_range(0..4) },
                script_sig: ScriptBuf::from_bytes(bytes(r, 3)),
                sequence: bitcoin::Sequence(r.gen()),
                witness: if chance(r, 1, 2) { Witness::from_slice(&[bytes(r, 5)]) } else { Witness::new() },
            })
            .collect(),
        output: (0..r.gen_range(1..3)).map(|_| TxOut { value: Amount::from_sat(r.gen_range(0..1_000_000)), script_pubkey: ScriptBuf::from_bytes(bytes(r, 22)) }).collect(),
    }
}

/// probability dial: p = n/d for every optional field
#[derive(Clone, Copy, Debug)]
pub struct P(pub u32, pub u32);

pub fn map_len(r: &mut Rg, p: P) -> usize {
    if chance(r, p.0, p.1) {
        r.gen_range(1..=4)
    } else {
        0
    }
}

pub fn input(r: &mut Rg, p: P) -> Input {
    let has = |r: &mut Rg| chance(r, p.0, p.1);
    let mut i = Input::from_prevout(OutPoint { txid: Txid::from_byte_array(arr32(r)), vout: r.gen_range(0..(1u32 << 30)) >> r.gen_range(0..30) });
    let d = TxDials { max_in: 2, max_out: 2, ..TxDials::default() };
    if has(r) {
        i.non_witness_utxo = Some(super::tx(r, &d));
    }
    if has(r) {
        let mut o = super::txout(r, &d);
        o.witness = Default::default();
        i.witness_utxo = Some(o);
    }
    for _ in 0..map_len(r, p) {
        let n = r.gen_range(0..74);
        i.partial_sigs.insert(btc_pubkey(r), bytes(r, n));
    }
    if has(r) {
        i.sighash_type = Some(PsbtSighashType::from_u32(*pick(r, &[0u32, 1, 2, 3, 0x81, 0x82, 0x83, 0x41, 0x100, 0x101, u32::MAX, 0x1ff])));
    }
    if has(r) {
        i.redeem_script = Some(small_script(r));
    }
    if has(r) {
        i.witness_script = Some(small_script(r));
    }
    for _ in 0..map_len(r, p) {
        i.bip32_derivation.insert(btc_pubkey(r), key_source(r));
    }
    if has(r) {
        i.final_script_sig = Some(small_script(r));
    }
    if has(r) {
        i.final_script_witness = Some(super::witness_stack(r, false));
    }
    for _ in 0..map_len(r, p) {
        let n = r.gen_range(0..40);
        let pre = bytes(r, n);
        i.ripemd160_preimages.insert(ripemd160::Hash::hash(&pre), pre);
    }
    for _ in 0..map_len(r, p) {
        let n = r.gen_range(0..40);
        let pre = bytes(r, n);
        i.sha256_preimages.insert(sha256::Hash::hash(&pre), pre);
    }
    for _ in 0..map_len(r, p) {
        let n = r.gen_range(0..40);
        let pre = bytes(r, n);
        i.hash160_preimages.insert(hash160::Hash::hash(&pre), pre);
    }
    for _ in 0..map_len(r, p) {
        let n = r.gen_range(0..40);
        let pre = bytes(r, n);
        i.hash256_preimages.insert(sha256d::Hash::hash(&pre), pre);
    }
    if has(r) {
        i.sequence = Some(Sequence(r.gen()));
    }
    if has(r) {
        i.required_time_locktime = Some(elements::locktime::Time::from_consensus(r.gen_range(500_000_000..=u32::MAX)).unwrap());
    }
    if has(r) {
        i.required_height_locktime = Some(elements::locktime::Height::from_consensus(r.gen_range(0..500_000_000)).unwrap());
    }
    if has(r) {
        i.tap_key_sig = Some(schnorr_sig(r));
    }
    for _ in 0..map_len(r, p) {
        i.tap_script_sigs.insert((xonly(r), TapLeafHash::from_byte_array(arr32(r))), schnorr_sig(r));
    }
    for _ in 0..map_len(r, p) {
        i.tap_scripts.insert(control_block(r), (small_script(r), leaf_version(r)));
    }
    for _ in 0..map_len(r, p) {
        let n = r.gen_range(0..3);
        i.tap_key_origins.insert(xonly(r), ((0..n).map(|_| TapLeafHash::from_byte_array(arr32(r))).collect(), key_source(r)));
    }
    if has(r) {
        i.tap_internal_key = Some(xonly(r));
    }
    if has(r) {
        i.tap_merkle_root = Some(TapNodeHash::from_byte_array(arr32(r)));
    }
    // elements proprietary fields
    if has(r) {
        i.issuance_value_amount = Some(r.gen());
    }
    if has(r) {
        i.issuance_value_comm = Some(super::pedersen(r));
    }
    if has(r) {
        i.issuance_value_rangeproof = Some(rangeproof(r, false));
    }
    if has(r) {
        i.issuance_keys_rangeproof = Some(rangeproof(r, false));
    }
    if has(r) {
        i.pegin_tx = Some(btc_tx(r));
    }
    if has(r) {
        let n = r.gen_range(0..100);
        i.pegin_txout_proof = Some(bytes(r, n));
    }
    if has(r) {
        i.pegin_genesis_hash = Some(elements::BlockHash::from_byte_array(arr32(r)));
    }
    if has(r) {
        i.pegin_claim_script = Some(small_script(r));
    }
    if has(r) {
        i.pegin_value = Some(r.gen());
    }
    if has(r) {
        i.pegin_witness = Some(super::witness_stack(r, false));
    }
    if has(r) {
        i.issuance_inflation_keys = Some(r.gen());
    }
    if has(r) {
        i.issuance_inflation_keys_comm = Some(super::pedersen(r));
    }
    if has(r) {
        i.issuance_blinding_nonce = Some(tweak(r));
    }
    if has(r) {
        i.issuance_asset_entropy = Some(arr32(r));
    }
    if has(r) {
        i.in_utxo_rangeproof = Some(rangeproof(r, false));
    }
    if has(r) {
        i.in_issuance_blind_value_proof = Some(rangeproof(r, false));
    }
    if has(r) {
        i.in_issuance_blind_inflation_keys_proof = Some(rangeproof(r, false));
    }
    if has(r) {
        i.amount = Some(r.gen());
    }
    if has(r) {
        i.blind_value_proof = Some(rangeproof(r, false));
    }
    if has(r) {
        i.asset = Some(AssetId::from_byte_array(arr32(r)));
    }
    if has(r) {
        i.blind_asset_proof = Some(surjectionproof(r));
    }
    if has(r) {
        i.blinded_issuance = Some(r.gen_range(0..2));
    }
    for _ in 0..map_len(r, p) {
        let n = r.gen_range(0..20);
        i.proprietary.insert(prop_key(r), bytes(r, n));
    }
    for _ in 0..map_len(r, p) {
        let n = r.gen_range(0..20);
        i.unknown.insert(unknown_key(r), bytes(r, n));
    }
    i
}

pub fn output(r: &mut Rg, p: P) -> Output {
    let has = |r: &mut Rg| chance(r, p.0, p.1);
    let mut o = Output { script_pubkey: small_script(r), ..Output::default() };
    // blinding state: 0 explicit unmarked, 1 marked not yet blinded, 2 fully blinded (+ optional explicit fields)
    // 3 / 4: partially blinded (explicit amount with an asset commitment only, and the reverse)
    let state = if chance(r, 1, 6) { r.gen_range(3..5) } else { r.gen_range(0..3) };
    match state {
        0 => {
            o.amount = Some(r.gen());
            o.asset = Some(AssetId::from_byte_array(arr32(r)));
        }
        3 => {
            o.amount = Some(r.gen());
            o.asset_comm = Some(super::generator(r));
            o.asset_surjection_proof = Some(surjectionproof(r));
            o.blinder_index = Some(r.gen_range(0..4));
        }
        4 => {
            o.amount_comm = Some(super::pedersen(r));
            o.asset = Some(AssetId::from_byte_array(arr32(r)));
            o.value_rangeproof = Some(rangeproof(r, false));
            o.blinder_index = Some(r.gen_range(0..4));
        }
        1 => {
            o.amount = Some(r.gen());
            o.asset = Some(AssetId::from_byte_array(arr32(r)));
            o.blinding_key = Some(bitcoin::PublicKey::new(public_key(r)));
            o.blinder_index = Some(r.gen_range(0..4));
        }
        _ => {
            o.amount_comm = Some(super::pedersen(r));
            o.asset_comm = Some(super::generator(r));
            o.value_rangeproof = Some(rangeproof(r, false));
            o.asset_surjection_proof = Some(surjectionproof(r));
            o.blinding_key = Some(btc_pubkey(r));
            o.ecdh_pubkey = Some(btc_pubkey(r));
            o.blinder_index = Some(r.gen());
            if has(r) {
                o.amount = Some(r.gen());
                o.blind_value_proof = Some(rangeproof(r, false));
            }
            if has(r) {
                o.asset = Some(AssetId::from_byte_array(arr32(r)));
                o.blind_asset_proof = Some(surjectionproof(r));
            }
        }
    }
    if state == 0 && has(r) {
        // blinder index without a blinding key is allowed
        o.blinder_index = Some(r.gen());
    }
    if has(r) {
        o.redeem_script = Some(small_script(r));
    }
    if has(r) {
        o.witness_script = Some(small_script(r));
    }
    for _ in 0..map_len(r, p) {
        o.bip32_derivation.insert(btc_pubkey(r), key_source(r));
    }
    if has(r) {
        o.tap_internal_key = Some(xonly(r));
    }
    if has(r) {
        o.tap_tree = Some(tap_tree(r));
    }
    for _ in 0..map_len(r, p) {
        let n = r.gen_range(0..3);
        o.tap_key_origins.insert(xonly(r), ((0..n).map(|_| TapLeafHash::from_byte_array(arr32(r))).collect(), key_source(r)));
    }
    for _ in 0..map_len(r, p) {
        let n = r.gen_range(0..20);
        o.proprietary.insert(prop_key(r), bytes(r, n));
    }
    for _ in 0..map_len(r, p) {
        let n = r.gen_range(0..20);
        o.unknown.insert(unknown_key(r), bytes(r, n));
    }
    o
}

pub fn pset(r: &mut Rg, p: P, max_in: usize, max_out: usize) -> Pset {
    let has = |r: &mut Rg| chance(r, p.0, p.1);
    let mut ps = Pset::new_v2();
    ps.global.tx_data.version = if chance(r, 1, 4) { r.gen() } else { 2 };
    if has(r) {
        ps.global.tx_data.fallback_locktime = Some(LockTime::from_consensus(r.gen()));
    }
    if has(r) {
        ps.global.tx_data.tx_modifiable = Some(r.gen());
    }
    for _ in 0..map_len(r, p) {
        ps.global.xpub.insert(xpub(r), key_source(r));
    }
    for _ in 0..map_len(r, p) {
        let t = tweak(r);
        if !ps.global.scalars.contains(&t) {
            ps.global.scalars.push(t);
        }
    }
    if has(r) {
        ps.global.elements_tx_modifiable_flag = Some(r.gen());
    }
    for _ in 0..map_len(r, p) {
        let n = r.gen_range(0..20);
        ps.global.proprietary.insert(prop_key(r), bytes(r, n));
    }
    for _ in 0..map_len(r, p) {
        let n = r.gen_range(0..20);
        ps.global.unknown.insert(unknown_key(r), bytes(r, n));
    }
    for _ in 0..r.gen_range(0..=max_in) {
        ps.add_input(input(r, p));
    }
    for _ in 0..r.gen_range(0..=max_out) {
        ps.add_output(output(r, p));
    }
    ps
}

/// presence bitmap of optional input fields, used as a coverage shape
pub fn input_shape(i: &Input) -> u64 {
    let b = [
        i.non_witness_utxo.is_some(),
        i.witness_utxo.is_some(),
        !i.partial_sigs.is_empty(),
        i.sighash_type.is_some(),
        i.redeem_script.is_some(),
        i.witness_script.is_some(),
        !i.bip32_derivation.is_empty(),
        i.final_script_sig.is_some(),
        i.final_script_witness.is_some(),
        !i.ripemd160_preimages.is_empty(),
        !i.sha256_preimages.is_empty(),
        !i.hash160_preimages.is_empty(),
        !i.hash256_preimages.is_empty(),
        i.sequence.is_some(),
        i.required_time_locktime.is_some(),
        i.required_height_locktime.is_some(),
        i.tap_key_sig.is_some(),
        !i.tap_script_sigs.is_empty(),
        !i.tap_scripts.is_empty(),
        !i.tap_key_origins.is_empty(),
        i.tap_internal_key.is_some(),
        i.tap_merkle_root.is_some(),
        i.issuance_value_amount.is_some(),
        i.issuance_value_comm.is_some(),
        i.issuance_value_rangeproof.is_some(),
        i.issuance_keys_rangeproof.is_some(),
        i.pegin_tx.is_some(),
        i.pegin_txout_proof.is_some(),
        i.pegin_genesis_hash.is_some(),
        i.pegin_claim_script.is_some(),
        i.pegin_value.is_some(),
        i.pegin_witness.is_some(),
        i.issuance_inflation_keys.is_some(),
        i.issuance_inflation_keys_comm.is_some(),
        i.issuance_blinding_nonce.is_some(),
        i.issuance_asset_entropy.is_some(),
        i.in_utxo_rangeproof.is_some(),
        i.in_issuance_blind_value_proof.is_some(),
        i.in_issuance_blind_inflation_keys_proof.is_some(),
        i.amount.is_some(),
        i.blind_value_proof.is_some(),
        i.asset.is_some(),
        i.blind_asset_proof.is_some(),
        i.blinded_issuance.is_some(),
        !i.proprietary.is_empty(),
        !i.unknown.is_empty(),
    ];
    b.iter().enumerate().fold(0u64, |a, (k, x)| a | ((*x as u64) << k))
}

pub fn output_shape(o: &Output) -> u32 {
    let b = [
        o.redeem_script.is_some(),
        o.witness_script.is_some(),
        !o.bip32_derivation.is_empty(),
        o.tap_internal_key.is_some(),
        o.tap_tree.is_some(),
        !o.tap_key_origins.is_empty(),
        o.amount.is_some(),
        o.amount_comm.is_some(),
        o.asset.is_some(),
        o.asset_comm.is_some(),
        o.value_rangeproof.is_some(),
        o.asset_surjection_proof.is_some(),
        o.blinding_key.is_some(),
        o.ecdh_pubkey.is_some(),
        o.blinder_index.is_some(),
        o.blind_value_proof.is_some(),
        o.blind_asset_proof.is_some(),
        !o.proprietary.is_empty(),
        !o.unknown.is_empty(),
    ];
    b.iter().enumerate().fold(0u32, |a, (k, x)| a | ((*x as u32) << k))
}

#[allow(dead_code)]
pub fn unused(r: &mut Rg) {
    let _ = (arr20(r), secret_key(r), with_secp(|_| ()));
}
