//! Blinding scenarios: balanced explicit transactions with known spent-output secrets,
//! explicit issuances / reissuances, and a chosen subset of outputs marked for blinding.

use super::{arr20, arr32, bytes, chance, pick, secret_key, tweak, with_secp, Rg};
use crate::refmodel::merkle;
use elements::confidential::{Asset, AssetBlindingFactor, Nonce, Value, ValueBlindingFactor};
use elements::hashes::Hash;
use elements::secp256k1_zkp as zkp;
use elements::{AssetId, AssetIssuance, OutPoint, Script, Sequence, Transaction, TxIn, TxOut, TxOutSecrets, Txid};
use rand::Rng;

#[derive(Clone, Debug)]
pub struct Scenario {
    /// explicit transaction; marked outputs carry the receiver's blinding key in the nonce
    pub tx: Transaction,
    /// spent outputs, in input order
    pub spent: Vec<TxOut>,
    /// true secrets of the spent outputs, in input order
    pub spent_secrets: Vec<TxOutSecrets>,
    /// secrets handed to the blinder: spent outputs with issuance pseudo-inputs inserted
    /// in the documented order [inp, inp_issue, inp_token, next inp, ...]
    pub blind_secrets: Vec<TxOutSecrets>,
    /// per output: receiver blinding secret key for marked outputs
    pub receivers: Vec<Option<zkp::SecretKey>>,
    /// per output: original (asset, value)
    pub orig: Vec<(AssetId, u64)>,
    /// coarse description for coverage
    pub shape: String,
}

/// a script for which `Address::from_script` yields an address (needed for marked outputs)
pub fn address_script(r: &mut Rg) -> Script {
    match r.gen_range(0..7) {
        0 => {
            let mut v = vec![0x76, 0xa9, 0x14];
            v.extend_from_slice(&arr20(r));
            v.extend_from_slice(&[0x88, 0xac]);
            Script::from(v)
        }
        1 => {
            let mut v = vec![0xa9, 0x14];
            v.extend_from_slice(&arr20(r));
            v.push(0x87);
            Script::from(v)
        }
        2 => {
            let mut v = vec![0x00, 0x14];
            v.extend_from_slice(&arr20(r));
            Script::from(v)
        }
        3 => {
            let mut v = vec![0x00, 0x20];
            v.extend_from_slice(&arr32(r));
            Script::from(v)
        }
        4 => {
            let mut v = vec![0x51, 0x20];
            v.extend_from_slice(&arr32(r));
            Script::from(v)
        }
        _ => {
            let ver = r.gen_range(1..=16u8);
            let l = r.gen_range(2..=40usize);
            let mut v = vec![0x50 + ver, l as u8];
            v.extend(bytes(r, l));
            Script::from(v)
        }
    }
}

pub fn any_script(r: &mut Rg) -> Script {
    match r.gen_range(0..4) {
        0 => address_script(r),
        1 => {
            // unspendable data carrier
            let mut v = vec![0x6a, 0x04];
            v.extend(bytes(r, 4));
            Script::from(v)
        }
        _ => {
            let n = r.gen_range(1..60);
            let mut b = bytes(r, n);
            if b[0] == 0x6a {
                b[0] = 0x51;
            }
            Script::from(b)
        }
    }
}

fn value_class(r: &mut Rg) -> u64 {
    match r.gen_range(0..10) {
        0 => 1,
        1 => 2,
        2 => r.gen_range(1..1000),
        3 => (1u64 << 52) - r.gen_range(0..3),
        4 => (1u64 << 52) + r.gen_range(1..3),
        5 => 1u64 << r.gen_range(53..60),
        6 => 21_000_000 * 100_000_000,
        _ => r.gen_range(1..(1u64 << 40)),
    }
}

/// split `total` (>= n) into n positive parts
pub fn split(r: &mut Rg, total: u64, n: usize) -> Vec<u64> {
    let mut parts = Vec::with_capacity(n);
    let mut rest = total;
    for i in 0..n {
        let left = (n - i - 1) as u64;
        if left == 0 {
            parts.push(rest);
        } else {
            let max = rest - left;
            let v = match r.gen_range(0..4) {
                0 => 1,
                1 => max,
                _ => r.gen_range(1..=max),
            };
            parts.push(v);
            rest -= v;
        }
    }
    parts
}

pub fn spent_output(r: &mut Rg, asset: AssetId, value: u64, confidential: bool) -> (TxOut, TxOutSecrets) {
    spent_output_kind(r, asset, value, if confidential { 1 } else { 0 })
}

/// kind 0: explicit, 1: confidential, 2: confidential asset with explicit value,
/// 3: explicit asset with confidential value (partially blinded outputs exist on chain,
/// e.g. the outputs spent by tests/data/issue_tx.hex)
pub fn spent_output_kind(r: &mut Rg, asset: AssetId, value: u64, kind: u8) -> (TxOut, TxOutSecrets) {
    let abf = if kind == 1 || kind == 2 { AssetBlindingFactor::new(r) } else { AssetBlindingFactor::zero() };
    let vbf = if kind == 1 || kind == 3 { ValueBlindingFactor::new(r) } else { ValueBlindingFactor::zero() };
    let secrets = TxOutSecrets::new(asset, abf, value, vbf);
    let out = with_secp(|s| TxOut {
        asset: if kind == 1 || kind == 2 { Asset::new_confidential(s, asset, abf) } else { Asset::Explicit(asset) },
        value: if kind == 1 || kind == 3 { Value::new_confidential_from_assetid(s, value, asset, vbf, abf) } else { Value::Explicit(value) },
        nonce: if kind != 0 && chance(r, 1, 2) { Nonce::Confidential(super::public_key(r)) } else { Nonce::Null },
        script_pubkey: address_script(r),
        witness: Default::default(),
    });
    (out, secrets)
}

#[derive(Clone, Debug)]
pub struct Dials {
    pub max_inputs: usize,
    pub max_assets: usize,
    pub issuances: bool,
    /// None: random non-empty subset; Some(mask): bit i marks the i-th non-fee output
    pub mark_mask: Option<u32>,
    pub big_values: bool,
}

impl Default for Dials {
    fn default() -> Self {
        Dials { max_inputs: 5, max_assets: 3, issuances: true, mark_mask: None, big_values: true }
    }
}

pub fn scenario(r: &mut Rg, d: &Dials) -> Scenario {
    let n_assets = r.gen_range(1..=d.max_assets);
    let assets: Vec<AssetId> = (0..n_assets).map(|_| AssetId::from_byte_array(arr32(r))).collect();
    let n_in = r.gen_range(1..=d.max_inputs);
    let mut totals: Vec<(AssetId, u64)> = Vec::new();
    let add = |totals: &mut Vec<(AssetId, u64)>, a: AssetId, v: u64| {
        if let Some(e) = totals.iter_mut().find(|e| e.0 == a) {
            e.1 += v;
        } else {
            totals.push((a, v));
        }
    };
    let mut inputs = Vec::new();
    let mut spent = Vec::new();
    let mut spent_secrets = Vec::new();
    let mut blind_secrets = Vec::new();
    let mut n_conf_in = 0;
    let mut n_partial_in = 0;
    let mut n_iss = 0;
    let mut n_reiss = 0;
    for i in 0..n_in {
        // every asset is funded by at least one input when there are enough inputs
        let asset = if i < n_assets { assets[i] } else { *pick(r, &assets) };
        let value = if d.big_values { value_class(r) } else { r.gen_range(1..100_000) };
        let kind = match r.gen_range(0..8) {
            0..=2 => 0u8,
            3..=5 => 1,
            6 => 2,
            _ => 3,
        };
        n_conf_in += (kind != 0) as usize;
        n_partial_in += (kind >= 2) as usize;
        let (out, sec) = spent_output_kind(r, asset, value, kind);
        add(&mut totals, asset, value);
        let mut txin = TxIn {
            previous_output: OutPoint { txid: Txid::from_byte_array(arr32(r)), vout: r.gen_range(0..8) },
            is_pegin: false,
            script_sig: Script::new(),
            sequence: Sequence(0xffff_fffe),
            asset_issuance: AssetIssuance::null(),
            witness: Default::default(),
        };
        blind_secrets.push(sec);
        if d.issuances && chance(r, 1, 4) {
            let reissue = chance(r, 1, 3);
            let entropy_field = arr32(r);
            let amount = value_class(r).min(1 << 50);
            let keys = if !reissue && chance(r, 1, 2) { Some(r.gen_range(1..1000u64)) } else { None };
            let amount_opt = if reissue || keys.is_none() || chance(r, 3, 4) { Some(amount) } else { None };
            txin.asset_issuance = AssetIssuance {
                asset_blinding_nonce: if reissue { tweak(r) } else { zkp::ZERO_TWEAK },
                asset_entropy: entropy_field,
                amount: amount_opt.map(Value::Explicit).unwrap_or(Value::Null),
                inflation_keys: keys.map(Value::Explicit).unwrap_or(Value::Null),
            };
            // ids by the reference formulas (DESIGN.md B.4)
            let entropy = if reissue {
                entropy_field
            } else {
                merkle::entropy(&txin.previous_output.txid.to_byte_array(), txin.previous_output.vout, &entropy_field)
            };
            let asset_id = AssetId::from_byte_array(merkle::asset_id(&entropy));
            let token_id = AssetId::from_byte_array(merkle::token_id(&entropy, false));
            if let Some(a) = amount_opt {
                add(&mut totals, asset_id, a);
                blind_secrets.push(TxOutSecrets::new(asset_id, AssetBlindingFactor::zero(), a, ValueBlindingFactor::zero()));
            }
            if let Some(k) = keys {
                add(&mut totals, token_id, k);
                blind_secrets.push(TxOutSecrets::new(token_id, AssetBlindingFactor::zero(), k, ValueBlindingFactor::zero()));
            }
            if reissue {
                n_reiss += 1;
            } else {
                n_iss += 1;
            }
        }
        inputs.push(txin);
        spent.push(out);
        spent_secrets.push(sec);
    }
    // outputs
    let mut outputs: Vec<TxOut> = Vec::new();
    let mut orig = Vec::new();
    let mut fee_positions = Vec::new();
    for (ai, (asset, total)) in totals.iter().enumerate() {
        let want = r.gen_range(1..=3usize);
        let n = want.min((*total).min(3) as usize);
        let parts = split(r, *total, n);
        for (pi, v) in parts.iter().enumerate() {
            let is_fee = ai == 0 && pi == 0 && n > 1 && chance(r, 2, 3);
            let o = if is_fee {
                TxOut::new_fee(*v, *asset)
            } else {
                TxOut { asset: Asset::Explicit(*asset), value: Value::Explicit(*v), nonce: Nonce::Null, script_pubkey: address_script(r), witness: Default::default() }
            };
            if is_fee {
                fee_positions.push(outputs.len());
            }
            outputs.push(o);
            orig.push((*asset, *v));
        }
    }
    // shuffle output order (fee anywhere)
    let mut idx: Vec<usize> = (0..outputs.len()).collect();
    for i in (1..idx.len()).rev() {
        let j = r.gen_range(0..=i);
        idx.swap(i, j);
    }
    let outputs: Vec<TxOut> = idx.iter().map(|i| outputs[*i].clone()).collect();
    let orig: Vec<(AssetId, u64)> = idx.iter().map(|i| orig[*i]).collect();
    let mut outputs = outputs;
    // mark a non-empty subset of the non-fee outputs
    let non_fee: Vec<usize> = (0..outputs.len()).filter(|i| !outputs[*i].is_fee()).collect();
    let mut receivers: Vec<Option<zkp::SecretKey>> = vec![None; outputs.len()];
    let mask = match d.mark_mask {
        Some(m) => {
            let m = m & ((1u32 << non_fee.len()) - 1);
            if m == 0 {
                1
            } else {
                m
            }
        }
        None => loop {
            let m: u32 = r.gen_range(1..(1u32 << non_fee.len()));
            break m;
        },
    };
    let mut n_marked = 0;
    for (bit, oi) in non_fee.iter().enumerate() {
        if mask & (1 << bit) != 0 {
            let sk = secret_key(r);
            let pk = with_secp(|s| zkp::PublicKey::from_secret_key(s, &sk));
            outputs[*oi].nonce = Nonce::Confidential(pk);
            receivers[*oi] = Some(sk);
            n_marked += 1;
        } else if chance(r, 1, 2) {
            // unmarked outputs may use any script
            outputs[*oi].script_pubkey = any_script(r);
        }
    }
    // now and then several marked outputs pay to the same script (same destination, different
    // blinding keys)
    if n_marked >= 2 && chance(r, 1, 6) {
        let marked: Vec<usize> = (0..outputs.len()).filter(|i| receivers[*i].is_some()).collect();
        let src = outputs[marked[0]].script_pubkey.clone();
        for i in &marked[1..] {
            if chance(r, 2, 3) {
                outputs[*i].script_pubkey = src.clone();
            }
        }
    }
    let first_marked = receivers.iter().position(|x| x.is_some()).unwrap_or(0);
    let last_marked = receivers.iter().rposition(|x| x.is_some()).unwrap_or(0);
    let shape = format!(
        "in{}c{}p{} iss{} reiss{} assets{} out{} marked{} first{} last{} fee{}",
        n_in,
        n_conf_in,
        n_partial_in,
        n_iss,
        n_reiss,
        totals.len(),
        outputs.len(),
        n_marked,
        first_marked,
        last_marked,
        if fee_positions.is_empty() { 0 } else { 1 }
    );
    Scenario {
        tx: Transaction { version: 2, lock_time: elements::LockTime::ZERO, input: inputs, output: outputs },
        spent,
        spent_secrets,
        blind_secrets,
        receivers,
        orig,
        shape,
    }
}
