//! Structured generators: byte strings, curve points, confidential fields, proofs,
//! transactions, headers, blocks. All randomness comes from the per-case RNG.

use elements::confidential as conf;
use elements::hashes::Hash;
use elements::secp256k1_zkp as zkp;
use elements::{
    AssetId, AssetIssuance, Block, BlockExtData, BlockHeader, LockTime, OutPoint, Script, Sequence,
    Transaction, TxIn, TxInWitness, TxOut, TxOutWitness, Txid,
};
use rand::{Rng, RngCore};
use rand_chacha::ChaCha20Rng;

pub type Rg = ChaCha20Rng;

pub mod pset;
pub mod blind;

thread_local! {
    static SECP: zkp::Secp256k1<zkp::All> = zkp::Secp256k1::new();
}

pub fn with_secp<T>(f: impl FnOnce(&zkp::Secp256k1<zkp::All>) -> T) -> T {
    SECP.with(|s| f(s))
}

pub fn bytes(r: &mut Rg, n: usize) -> Vec<u8> {
    let mut v = vec![0u8; n];
    r.fill_bytes(&mut v);
    v
}

pub fn arr32(r: &mut Rg) -> [u8; 32] {
    let mut a = [0u8; 32];
    r.fill_bytes(&mut a);
    a
}

pub fn arr20(r: &mut Rg) -> [u8; 20] {
    let mut a = [0u8; 20];
    r.fill_bytes(&mut a);
    a
}

pub fn pick<'a, T>(r: &mut Rg, xs: &'a [T]) -> &'a T {
    &xs[r.gen_range(0..xs.len())]
}

pub fn chance(r: &mut Rg, num: u32, den: u32) -> bool {
    r.gen_range(0..den) < num
}

/// small lengths mostly, with the compact-size boundary 252/253 sometimes and the
/// 65535/65536 boundary when `big` is allowed
pub fn len_dial(r: &mut Rg, big: bool) -> usize {
    match r.gen_range(0..100) {
        0..=14 => 0,
        15..=29 => 1,
        30..=69 => r.gen_range(2..80),
        70..=84 => r.gen_range(80..252),
        85..=89 => 252,
        90..=94 => 253,
        95..=97 => r.gen_range(254..600),
        _ => {
            if big {
                *pick(r, &[65535usize, 65536, 65537, 70000])
            } else {
                r.gen_range(254..1200)
            }
        }
    }
}

pub fn small_len(r: &mut Rg) -> usize {
    match r.gen_range(0..10) {
        0..=2 => 0,
        3..=5 => 1,
        _ => r.gen_range(2..40),
    }
}

pub fn secret_key(r: &mut Rg) -> zkp::SecretKey {
    loop {
        if let Ok(k) = zkp::SecretKey::from_slice(&arr32(r)) {
            return k;
        }
    }
}

pub fn public_key(r: &mut Rg) -> zkp::PublicKey {
    let sk = secret_key(r);
    with_secp(|s| zkp::PublicKey::from_secret_key(s, &sk))
}

pub fn tweak(r: &mut Rg) -> zkp::Tweak {
    loop {
        if let Ok(t) = zkp::Tweak::from_slice(&arr32(r)) {
            return t;
        }
    }
}

pub fn asset_id(r: &mut Rg) -> AssetId {
    AssetId::from_byte_array(arr32(r))
}

pub fn generator(r: &mut Rg) -> zkp::Generator {
    let tag = zkp::Tag::from(arr32(r));
    let t = tweak(r);
    with_secp(|s| zkp::Generator::new_blinded(s, tag, t))
}

pub fn pedersen(r: &mut Rg) -> zkp::PedersenCommitment {
    let g = generator(r);
    let t = tweak(r);
    let v = r.gen::<u64>() >> r.gen_range(0..64);
    with_secp(|s| zkp::PedersenCommitment::new(s, v.max(1), t, g))
}

/// variant: 0 null, 1 explicit, 2 confidential
pub fn value_v(r: &mut Rg, variant: u8) -> conf::Value {
    match variant {
        0 => conf::Value::Null,
        1 => conf::Value::Explicit(match r.gen_range(0..6) {
            0 => 0,
            1 => 1,
            2 => u64::MAX,
            3 => 21_000_000 * 100_000_000,
            _ => r.gen::<u64>() >> r.gen_range(0..64),
        }),
        _ => conf::Value::Confidential(pedersen(r)),
    }
}
pub fn asset_v(r: &mut Rg, variant: u8) -> conf::Asset {
    match variant {
        0 => conf::Asset::Null,
        1 => conf::Asset::Explicit(asset_id(r)),
        _ => conf::Asset::Confidential(generator(r)),
    }
}
pub fn nonce_v(r: &mut Rg, variant: u8) -> conf::Nonce {
    match variant {
        0 => conf::Nonce::Null,
        1 => conf::Nonce::Explicit(arr32(r)),
        _ => conf::Nonce::Confidential(public_key(r)),
    }
}

/// synthetic range proof: a header that libsecp's parser accepts + arbitrary body of a
/// chosen total length (>= 65)
pub fn rangeproof_len(r: &mut Rg, len: usize) -> Box<zkp::RangeProof> {
    let len = len.max(65);
    for _ in 0..20 {
        let mut b = bytes(r, len);
        match r.gen_range(0..4) {
            0 => b[0] = 0x00,
            1 => b[0] = 0x20,
            2 => {
                b[0] = 0x40 | r.gen_range(0..4u8);
                b[1] = r.gen_range(0..40u8);
            }
            _ => {
                b[0] = 0x60 | r.gen_range(0..3u8);
                b[1] = r.gen_range(0..40u8);
                // min value small so that max does not overflow
                for x in b[2..8].iter_mut() {
                    *x = 0;
                }
            }
        }
        if let Ok(p) = zkp::RangeProof::from_slice(&b) {
            return Box::new(p);
        }
    }
    let mut b = bytes(r, len);
    b[0] = 0;
    Box::new(zkp::RangeProof::from_slice(&b).expect("header 0 is always accepted"))
}

pub fn rangeproof(r: &mut Rg, big: bool) -> Box<zkp::RangeProof> {
    let len = match r.gen_range(0..10) {
        0 => 65,
        1 => 252,
        2 => 253,
        3 => 254,
        4..=7 => r.gen_range(66..400),
        _ => {
            if big {
                r.gen_range(2000..5200)
            } else {
                r.gen_range(400..1200)
            }
        }
    };
    rangeproof_len(r, len)
}

/// synthetic surjection proof over `n_inputs` (1..=256) with `used` bits set
pub fn surjectionproof_n(r: &mut Rg, n_inputs: usize, used: usize) -> Box<zkp::SurjectionProof> {
    let n_inputs = n_inputs.clamp(1, 256);
    let used = used.clamp(1, n_inputs.min(8));
    let mut b = Vec::new();
    b.extend_from_slice(&(n_inputs as u16).to_le_bytes());
    let mut bitmap = vec![0u8; (n_inputs + 7) / 8];
    let mut set = 0;
    while set < used {
        let i = r.gen_range(0..n_inputs);
        if bitmap[i / 8] & (1 << (i % 8)) == 0 {
            bitmap[i / 8] |= 1 << (i % 8);
            set += 1;
        }
    }
    b.extend_from_slice(&bitmap);
    b.extend_from_slice(&bytes(r, 32 * (used + 1)));
    Box::new(zkp::SurjectionProof::from_slice(&b).expect("well-formed synthetic surjection proof"))
}

pub fn surjectionproof(r: &mut Rg) -> Box<zkp::SurjectionProof> {
    let n = match r.gen_range(0..6) {
        0 => 1,
        1 => 2,
        2 => 3,
        3 => r.gen_range(4..20),
        4 => r.gen_range(20..257),
        _ => 256,
    };
    let used = r.gen_range(1..=3.min(n));
    surjectionproof_n(r, n, used)
}

pub fn script_bytes(r: &mut Rg, big: bool) -> Script {
    let n = len_dial(r, big);
    Script::from(bytes(r, n))
}

pub fn witness_stack(r: &mut Rg, big: bool) -> Vec<Vec<u8>> {
    let n = match r.gen_range(0..20) {
        0..=9 => r.gen_range(1..4),
        10..=15 => r.gen_range(4..8),
        16 => 252,
        17 => 253,
        _ => r.gen_range(1..3),
    };
    let n = if !big && n > 100 { 3 } else { n };
    (0..n)
        .map(|_| {
            let l = if n > 100 { small_len(r).min(3) } else { len_dial(r, false) };
            bytes(r, l)
        })
        .collect()
}

#[derive(Clone, Debug)]
pub struct TxDials {
    pub max_in: usize,
    pub max_out: usize,
    pub coinbase: bool,
    pub pegin: bool,
    pub issuance: bool,
    /// 6-bit mask of witness fields that may be present: amount proof, keys proof,
    /// script witness, pegin witness, surjection proof, range proof
    pub wit_mask: u8,
    pub big: bool,
    /// allow null / explicit-nonce / odd combinations in outputs
    pub exotic_outputs: bool,
    /// well-formed in the sense of C08: pegin witness only on pegins, issuance
    /// proofs only on issuances, non-null outputs, no explicit nonces
    pub wellformed: bool,
}

impl Default for TxDials {
    fn default() -> Self {
        TxDials {
            max_in: 4,
            max_out: 4,
            coinbase: true,
            pegin: true,
            issuance: true,
            wit_mask: 0x3f,
            big: false,
            exotic_outputs: true,
            wellformed: false,
        }
    }
}

pub fn issuance(r: &mut Rg) -> AssetIssuance {
    let reissue = chance(r, 1, 2);
    let (a, k) = loop {
        let a = r.gen_range(0..3u8);
        let k = r.gen_range(0..3u8);
        if a != 0 || k != 0 {
            break (a, k);
        }
    };
    AssetIssuance {
        asset_blinding_nonce: if reissue { tweak(r) } else { zkp::ZERO_TWEAK },
        asset_entropy: arr32(r),
        amount: value_v(r, a),
        inflation_keys: value_v(r, k),
    }
}

pub fn txin(r: &mut Rg, d: &TxDials, coinbase: bool) -> TxIn {
    let mut i = TxIn::default();
    if coinbase {
        i.previous_output = OutPoint::null();
        if chance(r, 1, 3) {
            // all-ones index with a non-null txid is still flag-free on the wire
            i.previous_output.txid = Txid::from_byte_array(arr32(r));
        }
    } else {
        i.previous_output = OutPoint {
            txid: Txid::from_byte_array(arr32(r)),
            vout: match r.gen_range(0..8) {
                0 => 0,
                1 => 1,
                2 => (1 << 30) - 1,
                3 => (1 << 30) - 2,
                _ => r.gen_range(0..(1u32 << 30)) >> r.gen_range(0..30),
            },
        };
        i.is_pegin = d.pegin && chance(r, 1, 4);
        if d.issuance && chance(r, 1, 3) {
            i.asset_issuance = issuance(r);
        }
        // index 2^30-1 with both flags would serialize as 0xffffffff, which the format
        // reserves for "coinbase, no flags": not a canonical value, never generated
        if i.previous_output.vout == (1 << 30) - 1 && i.is_pegin && !i.asset_issuance.is_null() {
            i.previous_output.vout -= 1;
        }
    }
    let bigs = d.big && chance(r, 1, 8);
    i.script_sig = if chance(r, 1, 2) { Script::new() } else { script_bytes(r, bigs) };
    i.sequence = Sequence(match r.gen_range(0..5) {
        0 => 0xffff_ffff,
        1 => 0xffff_fffe,
        2 => 0,
        _ => r.gen(),
    });
    let m = d.wit_mask;
    let has_iss = !i.asset_issuance.is_null();
    let mut w = TxInWitness::default();
    if m & 1 != 0 && chance(r, 1, 3) && (!d.wellformed || has_iss) {
        let b = d.big && chance(r, 1, 4);
        w.amount_rangeproof = Some(rangeproof(r, b));
    }
    if m & 2 != 0 && chance(r, 1, 4) && (!d.wellformed || has_iss) {
        w.inflation_keys_rangeproof = Some(rangeproof(r, false));
    }
    if m & 4 != 0 && chance(r, 1, 2) {
        w.script_witness = witness_stack(r, d.big);
    }
    if m & 8 != 0 && (if d.wellformed { i.is_pegin } else { i.is_pegin || chance(r, 1, 8) }) && chance(r, 2, 3) {
        w.pegin_witness = witness_stack(r, false);
    }
    i.witness = w;
    i
}

pub fn txout(r: &mut Rg, d: &TxDials) -> TxOut {
    let (a, v, n) = if d.wellformed {
        (r.gen_range(1..3u8), r.gen_range(1..3u8), *pick(r, &[0u8, 2]))
    } else if d.exotic_outputs {
        (r.gen_range(0..3u8), r.gen_range(0..3u8), r.gen_range(0..3u8))
    } else {
        (r.gen_range(1..3u8), r.gen_range(1..3u8), *pick(r, &[0u8, 2]))
    };
    let bigs = d.big && chance(r, 1, 8);
    let mut o = TxOut {
        asset: asset_v(r, a),
        value: value_v(r, v),
        nonce: nonce_v(r, n),
        script_pubkey: if chance(r, 1, 5) { Script::new() } else { script_bytes(r, bigs) },
        witness: TxOutWitness::default(),
    };
    if d.wit_mask & 16 != 0 && chance(r, 1, 3) {
        o.witness.surjection_proof = Some(surjectionproof(r));
    }
    if d.wit_mask & 32 != 0 && chance(r, 1, 3) {
        let b = d.big && chance(r, 1, 4);
        o.witness.rangeproof = Some(rangeproof(r, b));
    }
    o
}

pub fn lock_time(r: &mut Rg) -> LockTime {
    let n = match r.gen_range(0..6) {
        0 => 0,
        1 => 499_999_999,
        2 => 500_000_000,
        3 => u32::MAX,
        _ => r.gen(),
    };
    // the same value through the different constructors
    match r.gen_range(0..3) {
        0 => LockTime::from_consensus(n),
        1 => {
            if n < 500_000_000 {
                LockTime::from_height(n).expect("height below the threshold")
            } else {
                LockTime::from_time(n).expect("time at or above the threshold")
            }
        }
        _ => {
            if n < 500_000_000 {
                LockTime::from(elements::locktime::Height::from_consensus(n).expect("height"))
            } else {
                LockTime::from(elements::locktime::Time::from_consensus(n).expect("time"))
            }
        }
    }
}

pub fn tx(r: &mut Rg, d: &TxDials) -> Transaction {
    let coinbase = d.coinbase && chance(r, 1, 10);
    let lo = if d.max_in == 0 { 0 } else { usize::from(!chance(r, 1, 12)) };
    let nin = if coinbase { 1 } else { r.gen_range(lo..=d.max_in) };
    let nout = r.gen_range(0..=d.max_out);
    let input: Vec<TxIn> = (0..nin).map(|_| txin(r, d, coinbase)).collect();
    let output: Vec<TxOut> = (0..nout).map(|_| txout(r, d)).collect();
    Transaction {
        version: match r.gen_range(0..5) {
            0 => 1,
            1 => r.gen(),
            _ => 2,
        },
        lock_time: lock_time(r),
        input,
        output,
    }
}

pub fn full_params(r: &mut Rg, big: bool) -> elements::dynafed::FullParams {
    let next = if big { 10 } else { 5 };
    let n_ext = r.gen_range(0..next);
    elements::dynafed::FullParams::new(
        script_bytes(r, false),
        match r.gen_range(0..4) {
            0 => 0,
            1 => u32::MAX,
            _ => r.gen(),
        },
        elements::bitcoin::ScriptBuf::from_bytes({
            let n = len_dial(r, false);
            bytes(r, n)
        }),
        {
            let n = if big && chance(r, 1, 6) { 10_000 } else { len_dial(r, false) };
            bytes(r, n)
        },
        (0..n_ext)
            .map(|_| {
                let n = match r.gen_range(0..5) {
                    0 => 0,
                    1 => 33,
                    2 => 66,
                    _ => r.gen_range(0..300),
                };
                bytes(r, n)
            })
            .collect(),
    )
}

/// variant: 0 null, 1 compact, 2 full
pub fn params_v(r: &mut Rg, variant: u8) -> elements::dynafed::Params {
    use elements::dynafed::{ElidedRoot, Params};
    match variant {
        0 => Params::Null,
        1 => Params::Compact {
            signblockscript: script_bytes(r, false),
            signblock_witness_limit: r.gen(),
            elided_root: ElidedRoot::from_byte_array(arr32(r)),
        },
        _ => Params::Full(full_params(r, false)),
    }
}

pub fn header(r: &mut Rg) -> BlockHeader {
    let dyna = chance(r, 1, 2);
    BlockHeader {
        version: match r.gen_range(0..4) {
            0 => 0x2000_0000,
            1 => 0x7fff_ffff,
            2 => 0,
            _ => r.gen::<u32>() & 0x7fff_ffff,
        },
        prev_blockhash: elements::BlockHash::from_byte_array(arr32(r)),
        merkle_root: elements::TxMerkleNode::from_byte_array(arr32(r)),
        time: r.gen(),
        height: r.gen::<u32>() >> r.gen_range(0..32),
        ext: if dyna {
            let (cv, pv) = (r.gen_range(0..3), r.gen_range(0..3));
            BlockExtData::Dynafed {
                current: params_v(r, cv),
                proposed: params_v(r, pv),
                signblock_witness: if chance(r, 1, 3) { vec![] } else { witness_stack(r, false) },
            }
        } else {
            BlockExtData::Proof {
                challenge: script_bytes(r, false),
                solution: if chance(r, 1, 3) { Script::new() } else { script_bytes(r, false) },
            }
        },
    }
}

pub fn block(r: &mut Rg, max_tx: usize) -> Block {
    let n = r.gen_range(0..=max_tx);
    let d = TxDials { max_in: 2, max_out: 2, ..TxDials::default() };
    Block { header: header(r), txdata: (0..n).map(|_| tx(r, &d)).collect() }
}

/// structural feature signature of a transaction, used as the "shape" for
/// distinct_nontrivial counting
pub fn tx_shape(t: &Transaction) -> Vec<u8> {
    let mut s = vec![t.input.len().min(5) as u8, t.output.len().min(5) as u8, t.has_witness() as u8];
    let mut inflags = 0u16;
    for i in &t.input {
        inflags |= (i.is_pegin as u16)
            | ((i.is_coinbase() as u16) << 1)
            | ((i.has_issuance() as u16) << 2)
            | (((i.asset_issuance.asset_blinding_nonce != zkp::ZERO_TWEAK) as u16) << 3)
            | ((i.asset_issuance.amount.is_confidential() as u16) << 4)
            | ((i.asset_issuance.inflation_keys.is_confidential() as u16) << 5)
            | ((i.witness.amount_rangeproof.is_some() as u16) << 6)
            | ((i.witness.inflation_keys_rangeproof.is_some() as u16) << 7)
            | ((!i.witness.script_witness.is_empty() as u16) << 8)
            | ((!i.witness.pegin_witness.is_empty() as u16) << 9)
            | (((i.script_sig.len() >= 253) as u16) << 10);
    }
    let mut outflags = 0u16;
    for o in &t.output {
        let v = |x: u8| 1u16 << x;
        outflags |= match o.asset {
            conf::Asset::Null => v(0),
            conf::Asset::Explicit(_) => v(1),
            conf::Asset::Confidential(_) => v(2),
        } | match o.value {
            conf::Value::Null => v(3),
            conf::Value::Explicit(_) => v(4),
            conf::Value::Confidential(_) => v(5),
        } | match o.nonce {
            conf::Nonce::Null => v(6),
            conf::Nonce::Explicit(_) => v(7),
            conf::Nonce::Confidential(_) => v(8),
        } | ((o.witness.surjection_proof.is_some() as u16) << 9)
            | ((o.witness.rangeproof.is_some() as u16) << 10)
            | (((o.script_pubkey.len() >= 253) as u16) << 11)
            | ((o.script_pubkey.is_empty() as u16) << 12);
    }
    s.extend_from_slice(&inflags.to_le_bytes());
    s.extend_from_slice(&outflags.to_le_bytes());
    s
}
