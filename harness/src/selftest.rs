//! Self-test of the reference models ("validating the validators"). A failure here is
//! a harness error (exit 2), never a verdict about the library.
use serde_json::{json, Value};

pub fn run() -> Value {
    let mut results: Vec<Value> = Vec::new();
    let mut ok = true;
    let mut t = |name: &str, pass: bool, note: String| {
        if !pass {
            ok = false;
        }
        results.push(json!({"test": name, "pass": pass, "note": note}));
    };
    // SHA-256 known answers
    let h = crate::refmodel::sha::sha256(b"abc");
    t("sha256(abc)", crate::rt::hex(&h) == "ba7816bf8f01cfea414140de5dae2223b00361a396177a9cb410ff61f20015ad", String::new());
    let h = crate::refmodel::sha::sha256(b"");
    t("sha256(empty)", crate::rt::hex(&h) == "e3b0c44298fc1c149afbf4c8996fb92427ae41e4649b934ca495991b7852b855", String::new());
    let h = crate::refmodel::sha::sha256(&[b'a'; 119]);
    let h2 = {
        use elements::hashes::{sha256, Hash};
        sha256::Hash::hash(&[b'a'; 119]).to_byte_array()
    };
    t("sha256(119 x a) vs bitcoin_hashes", h == h2, String::new());
    json!({"ok": ok, "results": results})
}
