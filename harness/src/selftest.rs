//! Self-test of the reference models ("validating the validators"). A failure here is a
//! harness error (exit 2), never a verdict about the library. Vectors are read from the
//! repository's own files at run time; if a vector cannot be located (file re-organised)
//! the test is skipped and says so.
use crate::refmodel::{addr, merkle, ser, sha, sighash as rs};
use crate::rt::{hex, unhex};
use serde_json::{json, Value};

fn read(rel: &str) -> Option<String> {
    std::fs::read_to_string(format!("{}/{}", crate::corpus::repo_root(), rel)).ok()
}

/// quoted string literals on non-comment lines of a text region
fn quoted(region: &str) -> Vec<String> {
    let mut out = Vec::new();
    for line in region.lines() {
        let l = line.trim_start();
        if l.starts_with("//") {
            continue;
        }
        let mut rest = l;
        while let Some(i) = rest.find('"') {
            let after = &rest[i + 1..];
            match after.find('"') {
                Some(j) => {
                    out.push(after[..j].to_string());
                    rest = &after[j + 1..];
                }
                None => break,
            }
        }
    }
    out
}

fn region<'a>(text: &'a str, from: &str, to: &str) -> Option<&'a str> {
    let i = text.find(from)?;
    let rest = &text[i..];
    let j = rest[from.len()..].find(to).map(|x| x + from.len()).unwrap_or(rest.len());
    Some(&rest[..j])
}

fn rev(mut a: [u8; 32]) -> [u8; 32] {
    a.reverse();
    a
}

fn arr(v: &[u8]) -> Option<[u8; 32]> {
    if v.len() != 32 {
        return None;
    }
    let mut a = [0u8; 32];
    a.copy_from_slice(v);
    Some(a)
}

pub fn run() -> Value {
    let mut results: Vec<Value> = Vec::new();
    let mut ok = true;
    let mut t = |name: &str, pass: bool, note: String| {
        if !pass {
            ok = false;
        }
        results.push(json!({"test": name, "pass": pass, "note": note}));
    };

    // ---- SHA-256
    t("sha256(abc)", hex(&sha::sha256(b"abc")) == "ba7816bf8f01cfea414140de5dae2223b00361a396177a9cb410ff61f20015ad", String::new());
    t("sha256(empty)", hex(&sha::sha256(b"")) == "e3b0c44298fc1c149afbf4c8996fb92427ae41e4649b934ca495991b7852b855", String::new());
    {
        use elements::hashes::{sha256, sha256d, Hash};
        use rand::{RngCore, SeedableRng};
        let mut r = rand_chacha::ChaCha20Rng::seed_from_u64(0x5e1f);
        let mut all = true;
        for i in 0..1000usize {
            let mut m = vec![0u8; (i * 7) % 300];
            r.fill_bytes(&mut m);
            all &= sha::sha256(&m) == sha256::Hash::hash(&m).to_byte_array();
            all &= sha::sha256d(&m) == sha256d::Hash::hash(&m).to_byte_array();
        }
        t("sha256/sha256d vs bitcoin_hashes on 1000 messages (lengths 0..299)", all, String::new());
        // tagged hash against the dependency's generic tagged-hash engine layout
        let tag = sha256::Hash::hash(b"TapLeaf/elements").to_byte_array();
        let mut pre = tag.to_vec();
        pre.extend_from_slice(&tag);
        pre.extend_from_slice(b"xyz");
        t("tagged hash layout", sha::tagged("TapLeaf/elements", b"xyz") == sha256::Hash::hash(&pre).to_byte_array(), String::new());
    }

    // ---- fast merkle root: two structurally different reference definitions agree; Elements Core vectors
    {
        let mut all = true;
        for n in 0..200usize {
            let leaves: Vec<[u8; 32]> = (0..n).map(|i| sha::sha256(&(i as u64).to_le_bytes())).collect();
            all &= merkle::root(&leaves) == merkle::root_recursive(&leaves);
        }
        t("refmerkle level-by-level == recursive split, counts 0..199", all, String::new());
        match read("src/fast_merkle_root.rs").and_then(|s| {
            let leaves = quoted(region(&s, "let test_leaves", "];")?);
            let roots = quoted(region(&s, "let test_roots", "];")?);
            Some((leaves, roots))
        }) {
            Some((leaves, roots)) if leaves.len() + 1 == roots.len() && !leaves.is_empty() => {
                let lv: Vec<[u8; 32]> = leaves.iter().filter_map(|h| unhex(h).and_then(|b| arr(&b)).map(rev)).collect();
                let mut all = lv.len() == leaves.len();
                for i in 0..roots.len() {
                    if let Some(want) = unhex(&roots[i]).and_then(|b| arr(&b)).map(rev) {
                        all &= merkle::root(&lv[..i.min(lv.len())]) == want;
                    } else {
                        all = false;
                    }
                }
                t("refmerkle reproduces the Elements Core roots quoted in src/fast_merkle_root.rs", all, format!("{} roots", roots.len()));
            }
            _ => t("refmerkle vs src/fast_merkle_root.rs vectors", true, "skipped: vectors not located".into()),
        }
    }

    // ---- dynafed roots quoted in src/dynafed.rs (test_param_roots)
    {
        let compact = merkle::dynafed_root(&[1], 2, &[0u8; 32]);
        let extra = merkle::dynafed_extra_root(&[3], &[4], &[vec![5, 6], vec![7]]);
        let full = merkle::dynafed_root(&[1], 2, &extra);
        let header = merkle::root(&[compact, full]);
        match read("src/dynafed.rs").and_then(|s| region(&s, "fn test_param_roots", "fn to_debug_string").map(quoted)) {
            Some(q) => {
                let hexes: Vec<String> = q.into_iter().filter(|x| x.len() == 64 && x.chars().all(|c| c.is_ascii_hexdigit())).collect();
                if hexes.len() == 3 {
                    let m = |got: &[u8; 32], want: &str| hex(got) == want || hex(&rev(*got)) == want;
                    t("refmerkle dynafed roots == src/dynafed.rs test_param_roots", m(&compact, &hexes[0]) && m(&full, &hexes[1]) && m(&header, &hexes[2]), format!("compact {} full {} header {}", hex(&compact), hex(&full), hex(&header)));
                } else {
                    t("refmerkle dynafed roots", true, format!("skipped: expected 3 digests, found {}", hexes.len()));
                }
            }
            None => t("refmerkle dynafed roots", true, "skipped: test_param_roots not located".into()),
        }
    }

    // ---- refser / refdec: every harvested vector that the reference decoder accepts re-serializes exactly
    let corpus = crate::corpus::harvest();
    {
        let (mut txs, mut blocks, mut bad) = (0, 0, Vec::new());
        for b in &corpus {
            if let Ok(tx) = ser::whole(b, ser::dec_tx) {
                txs += 1;
                if tx.full() != *b {
                    bad.push(hex(&b[..b.len().min(24)]));
                }
            }
            if let Ok(blk) = ser::whole(b, ser::dec_block) {
                blocks += 1;
                if blk.full() != *b {
                    bad.push(hex(&b[..b.len().min(24)]));
                }
            }
        }
        t("refser(refdec(v)) == v for harvested repository vectors", bad.is_empty() && txs >= 5, format!("{} transactions, {} blocks among {} harvested literals; mismatches {:?}", txs, blocks, corpus.len(), bad));
    }

    // ---- refsighash: the digests pinned in src/sighash.rs
    match read("src/sighash.rs") {
        Some(s) => {
            let (mut n_seg, mut n_leg, mut bad) = (0, 0, Vec::new());
            for line in s.lines() {
                let l = line.trim_start();
                let seg = l.starts_with("test_segwit_sighash(");
                let leg = l.starts_with("test_legacy_sighash(");
                if !seg && !leg {
                    continue;
                }
                let q = quoted(l);
                let ty = if l.contains("SinglePlusAnyoneCanPay") { 0x83 } else if l.contains("NonePlusAnyoneCanPay") { 0x82 } else if l.contains("AllPlusAnyoneCanPay") { 0x81 } else if l.contains("EcdsaSighashType::Single") { 3 } else if l.contains("EcdsaSighashType::None") { 2 } else { 1 };
                // input index: first bare integer argument after the script literal
                let idx = 0usize;
                let parsed = (|| {
                    let tx = ser::whole(&unhex(q.first()?)?, ser::dec_tx).ok()?;
                    let script = unhex(q.get(1)?)?;
                    if seg {
                        let vb = unhex(q.get(2)?)?;
                        let value = ser::whole(&vb, ser::dec_value).ok()?;
                        let want = unhex(q.get(3)?)?;
                        Some((rs::segwit_v0_digest(&tx, idx, &script, &value, ty), want))
                    } else {
                        let want = unhex(q.get(2)?)?;
                        Some((rs::legacy_digest(&tx, idx, &script, ty), want))
                    }
                })();
                match parsed {
                    Some((got, want)) => {
                        if seg {
                            n_seg += 1;
                        } else {
                            n_leg += 1;
                        }
                        if got[..] != want[..] {
                            bad.push(format!("{} type {:#x}: got {} want {}", if seg { "segwit" } else { "legacy" }, ty, hex(&got), hex(&want)));
                        }
                    }
                    None => bad.push("unparsable vector line".into()),
                }
            }
            if n_seg + n_leg == 0 {
                t("refsighash vs src/sighash.rs vectors", true, "skipped: vectors not located".into());
            } else {
                t("refsighash reproduces the Elements-generated digests pinned in src/sighash.rs", bad.is_empty(), format!("{} segwit-v0, {} legacy vectors; {:?}", n_seg, n_leg, bad));
            }
        }
        None => t("refsighash vs src/sighash.rs vectors", true, "skipped: file not found".into()),
    }

    // ---- refaddr: the fixed address strings in src/address.rs. The strings are parsed by the
    // library only to obtain (network, payload, blinder); a mismatch is a harness error only if the
    // library's own display reproduces the string (otherwise the vector is left to C06).
    match read("src/address.rs").and_then(|s| region(&s, "fn test_fixed_addresses", "\n    }\n").map(quoted)) {
        Some(strings) if !strings.is_empty() => {
            use std::str::FromStr;
            let (mut n, mut skipped, mut bad) = (0, 0, Vec::new());
            for s in strings.iter().filter(|s| s.len() > 20) {
                match elements::Address::from_str(s) {
                    Ok(a) if a.to_string() == *s => {
                        let net = crate::mon::c06::net_index(a.params);
                        let Some(net) = net else {
                            skipped += 1;
                            continue;
                        };
                        let bl = a.blinding_pubkey.map(|k| k.serialize());
                        let want = addr::address(&addr::NETS[net], &crate::mon::c06::rpayload_of(&a), bl.as_ref());
                        n += 1;
                        if want != *s {
                            bad.push(format!("{} -> {}", s, want));
                        }
                    }
                    _ => skipped += 1,
                }
            }
            t("refaddr reproduces the fixed address strings of src/address.rs", bad.is_empty(), format!("{} strings checked, {} skipped; {:?}", n, skipped, bad));
        }
        _ => t("refaddr vs src/address.rs fixed addresses", true, "skipped: vectors not located".into()),
    }

    // ---- reference taproot DFS validity == shape enumeration
    {
        use crate::refmodel::tap;
        let mut all = true;
        for n in 1..=6 {
            for s in tap::shapes(n) {
                all &= tap::valid_dfs_depths(&s);
            }
        }
        all &= !tap::valid_dfs_depths(&[2, 1, 2]) && !tap::valid_dfs_depths(&[1]) && !tap::valid_dfs_depths(&[1, 1, 1]) && !tap::valid_dfs_depths(&[]);
        let counts: Vec<usize> = (1..=7).map(|n| tap::shapes(n).len()).collect();
        all &= counts == vec![1, 1, 2, 5, 14, 42, 132];
        t("reftap: enumerated shapes are valid DFS sequences; Catalan counts", all, format!("{:?}", counts));
    }

    // ---- BIP370 reference on the specification's own cases
    {
        use crate::refmodel::psetx::locktime;
        let all = locktime(&[], None) == Ok(0)
            && locktime(&[], Some(7)) == Ok(7)
            && locktime(&[(Some(600_000_000), Some(100))], Some(5)) == Ok(100)
            && locktime(&[(Some(600_000_000), None), (Some(500_000_001), Some(9))], None) == Ok(600_000_000)
            && locktime(&[(Some(600_000_000), None), (None, Some(9))], None).is_err()
            && locktime(&[(None, None), (None, Some(9)), (Some(500_000_000), Some(11))], Some(1)) == Ok(11);
        t("reflock on hand-checked BIP370 cases", all, String::new());
    }

    json!({"ok": ok, "results": results})
}
