//! vmon — runtime monitors for rust-elements properties C01..C20.
//! See /verif/DESIGN.md. This binary is the *worker*: the supervisor is /verif/bin/check.

#![allow(unused_imports, dead_code)]
mod alloc;
mod corpus;
mod gen;
mod iofault;
mod mon;
mod mutate;
mod refmodel;
mod rt;
mod selftest;

use rt::{Ctx, Tier};
use std::collections::HashMap;

#[global_allocator]
static GLOBAL: alloc::Counting = alloc::Counting;

fn args_map(args: &[String]) -> HashMap<String, String> {
    let mut m = HashMap::new();
    let mut i = 0;
    while i < args.len() {
        if let Some(k) = args[i].strip_prefix("--") {
            if i + 1 < args.len() && !args[i + 1].starts_with("--") {
                m.insert(k.to_string(), args[i + 1].clone());
                i += 2;
                continue;
            }
            m.insert(k.to_string(), "1".to_string());
        }
        i += 1;
    }
    m
}

fn main() {
    let args: Vec<String> = std::env::args().collect();
    if args.len() < 2 {
        eprintln!("usage: vmon worker|replay|selftest ...");
        std::process::exit(2);
    }
    let m = args_map(&args[2..]);
    rt::install_panic_hook();
    match args[1].as_str() {
        "dec" => {
            // debugging aid: decode hex as a transaction with the library and the reference decoder
            let b = rt::unhex(&args[2]).expect("hex");
            println!("lib: {:?}", elements::encode::deserialize::<elements::Transaction>(&b).map(|t| t.txid()));
            let mut r = refmodel::ser::R::new(&b);
            let res = refmodel::ser::dec_tx(&mut r);
            println!("ref: {:?} at pos {}", res.as_ref().map(|_| ()), r.pos);
            if let Ok(t) = res { println!("{:#?}", t); }
        }
        "noop" => {
            println!("vmon ok");
        }
        "selftest" => {
            let rep = selftest::run();
            let ok = rep["ok"].as_bool().unwrap_or(false);
            if let Some(out) = m.get("out") {
                std::fs::write(out, serde_json::to_vec_pretty(&rep).unwrap()).unwrap();
            } else {
                println!("{}", serde_json::to_string_pretty(&rep).unwrap());
            }
            std::process::exit(if ok { 0 } else { 2 });
        }
        "worker" | "replay" => {
            let prop = m.get("prop").expect("--prop").clone();
            let tier = match m.get("tier").map(|s| s.as_str()) {
                Some("thorough") => Tier::Thorough,
                _ => Tier::Quick,
            };
            let seed: u64 = m.get("seed").and_then(|s| s.parse().ok()).unwrap_or(0);
            let shard: u64 = m.get("shard").and_then(|s| s.parse().ok()).unwrap_or(0);
            let nshards: u64 = m.get("nshards").and_then(|s| s.parse().ok()).unwrap_or(1);
            let mut ctx = Ctx::new(&prop, tier, seed, shard, nshards);
            if let Some(l) = m.get("lane") {
                ctx.lane = l.clone();
            }
            if let Some(j) = m.get("journal") {
                ctx.set_journal(j);
            }
            if args[1] == "replay" {
                let phase = m.get("phase").expect("--phase");
                let idx: u64 = m.get("idx").and_then(|s| s.parse().ok()).expect("--idx");
                ctx.set_only(phase, idx);
            }
            if m.contains_key("no-alloc-track") {
                alloc::disable();
            }
            if !mon::run(&prop, &mut ctx) {
                eprintln!("unknown property {}", prop);
                std::process::exit(2);
            }
            let rep = ctx.report();
            if let Some(out) = m.get("out") {
                std::fs::write(out, serde_json::to_vec(&rep).unwrap()).unwrap();
            } else {
                println!("{}", serde_json::to_string_pretty(&rep).unwrap());
            }
            std::process::exit(0);
        }
        _ => {
            eprintln!("unknown command");
            std::process::exit(2);
        }
    }
}
