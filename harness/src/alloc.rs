//! Counting global allocator: bytes live inside a tracked call, peak, largest single
//! request. A request above `REFUSE` is recorded and refused (returns null -> the
//! process aborts via handle_alloc_error; the journal line written before the call
//! lets the supervisor attribute it). Counters only, no address tracking, so the
//! sanitizer lanes are not blinded by it; it can be switched off entirely.

use std::alloc::{GlobalAlloc, Layout, System};
use std::sync::atomic::{AtomicBool, AtomicUsize, Ordering::Relaxed};

pub struct Counting;

static ENABLED: AtomicBool = AtomicBool::new(true);
static TRACKING: AtomicBool = AtomicBool::new(false);
static LIVE: AtomicUsize = AtomicUsize::new(0);
static PEAK: AtomicUsize = AtomicUsize::new(0);
static LARGEST: AtomicUsize = AtomicUsize::new(0);
static TOTAL: AtomicUsize = AtomicUsize::new(0);

pub const REFUSE: usize = 1 << 30;

pub fn disable() {
    ENABLED.store(false, Relaxed);
}

unsafe impl GlobalAlloc for Counting {
    unsafe fn alloc(&self, l: Layout) -> *mut u8 {
        if TRACKING.load(Relaxed) {
            let n = l.size();
            if n > LARGEST.load(Relaxed) {
                LARGEST.store(n, Relaxed);
            }
            TOTAL.fetch_add(n, Relaxed);
            let live = LIVE.fetch_add(n, Relaxed) + n;
            if live > PEAK.load(Relaxed) {
                PEAK.store(live, Relaxed);
            }
            if n > REFUSE {
                return std::ptr::null_mut();
            }
        }
        System.alloc(l)
    }
    unsafe fn dealloc(&self, p: *mut u8, l: Layout) {
        if TRACKING.load(Relaxed) {
            let n = l.size();
            let cur = LIVE.load(Relaxed);
            LIVE.store(cur.saturating_sub(n), Relaxed);
        }
        System.dealloc(p, l)
    }
    unsafe fn alloc_zeroed(&self, l: Layout) -> *mut u8 {
        if TRACKING.load(Relaxed) {
            let n = l.size();
            if n > LARGEST.load(Relaxed) {
                LARGEST.store(n, Relaxed);
            }
            TOTAL.fetch_add(n, Relaxed);
            let live = LIVE.fetch_add(n, Relaxed) + n;
            if live > PEAK.load(Relaxed) {
                PEAK.store(live, Relaxed);
            }
            if n > REFUSE {
                return std::ptr::null_mut();
            }
        }
        System.alloc_zeroed(l)
    }
    unsafe fn realloc(&self, p: *mut u8, l: Layout, new: usize) -> *mut u8 {
        if TRACKING.load(Relaxed) {
            if new > LARGEST.load(Relaxed) {
                LARGEST.store(new, Relaxed);
            }
            if new > l.size() {
                let d = new - l.size();
                TOTAL.fetch_add(d, Relaxed);
                let live = LIVE.fetch_add(d, Relaxed) + d;
                if live > PEAK.load(Relaxed) {
                    PEAK.store(live, Relaxed);
                }
            } else {
                let cur = LIVE.load(Relaxed);
                LIVE.store(cur.saturating_sub(l.size() - new), Relaxed);
            }
            if new > REFUSE {
                return std::ptr::null_mut();
            }
        }
        System.realloc(p, l, new)
    }
}

#[derive(Clone, Copy, Debug, Default)]
pub struct Usage {
    /// peak of bytes allocated (net) during the call
    pub peak: usize,
    /// largest single request
    pub largest: usize,
    /// sum of all requests
    pub total: usize,
}

/// Run `f` with allocation accounting on (single-threaded worker).
pub fn track<T>(f: impl FnOnce() -> T) -> (T, Usage) {
    if !ENABLED.load(Relaxed) {
        return (f(), Usage::default());
    }
    LIVE.store(0, Relaxed);
    PEAK.store(0, Relaxed);
    LARGEST.store(0, Relaxed);
    TOTAL.store(0, Relaxed);
    TRACKING.store(true, Relaxed);
    struct Off;
    impl Drop for Off {
        fn drop(&mut self) {
            TRACKING.store(false, Relaxed);
        }
    }
    let _off = Off;
    let v = f();
    TRACKING.store(false, Relaxed);
    (v, Usage { peak: PEAK.load(Relaxed), largest: LARGEST.load(Relaxed), total: TOTAL.load(Relaxed) })
}
